# PLAIN, BYTE_STREAM_SPLIT and dictionary encodings (C08 safety, C11 round trip, C12 layout)
P08 = dict(overlays=['contracts/plain.ovl'], harness='harness/C08/plain.c', includes=['.'])

JOBS = []
for t, nloops in [('boolean', 2), ('int32', 0), ('int64', 0), ('int96', 1), ('float', 0), ('double', 0),
                  ('byte_array', 1)]:
    fn = 'carquet_decode_plain_' + ('fixed_byte_array' if t == 'fixed' else t)
    JOBS.append(dict(name='c08_plain_' + t, props=['C08', 'C12'], entry='h_plain_' + t, enforce=fn,
                     min_loop_obligations=nloops, timeout=240, wip=False, est_s=20 if t == 'boolean' else 10, **P08))
JOBS.append(dict(name='c08_plain_fixed', props=['C08', 'C12'], entry='h_plain_fixed', harness='harness/C08/plain.c',
                 includes=['.'], loop_contracts=False, backend=['cvc5', 'z3'], timeout=400, tier='thorough', est_s=150,
                 functions=['carquet_decode_plain_fixed_byte_array'], wip=False))
# (the former *_hugecount variants are now the main jobs: no bound on count, see harness/C08/plain.c)
PLAIN_FZ = dict(kind='fuzz', harness='replay/fz/plain_decode.c', max_len=40, secs=20,
                sources=['src/encoding/plain.c', 'src/core/buffer.c'])
for j_ in JOBS:
    j_['replayer'] = PLAIN_FZ
JOBS += [
    dict(name='c08_plain_dispatch', props=['C08'], entry='h_plain_dispatch', loop_contracts=False,
         replace=['carquet_decode_plain_boolean', 'carquet_decode_plain_int96', 'carquet_decode_plain_byte_array'],
         functions=['carquet_decode_plain', 'carquet_decode_plain_int32', 'carquet_decode_plain_int64',
                    'carquet_decode_plain_float', 'carquet_decode_plain_double'], timeout=240, wip=False, **P08),
    dict(name='c08_plain_dispatch_fixed', props=['C08'], entry='h_plain_dispatch_fixed', harness='harness/C08/plain.c',
         includes=['.'], loop_contracts=False, backend=['z3', 'sat'], timeout=300, tier='thorough', est_s=150,
         functions=['carquet_decode_plain', 'carquet_decode_plain_fixed_byte_array'], wip=False),
]

# ---- BYTE_STREAM_SPLIT ----
B08 = dict(overlays=['contracts/bss.ovl'], harness='harness/C08/bss.c', includes=['.'],
           extra_sources=['stubs/mem_stubs.c', 'stubs/plain_stubs.c'],
           trusted=['stubs/plain_stubs.c: carquet_dispatch_byte_split_* (SIMD dispatcher entry points) as contracts: '
                    'ranges [0,count*w) accessible, output is the byte transposition of the input'])
BSS_WIDTHS = [1, 2, 3, 4, 5, 7, 8, 12, 16]
JOBS += [
    dict(name='c08_bss_decode_float', props=['C08', 'C11', 'C12'], entry='h_bss_decode_float',
         enforce='carquet_byte_stream_split_decode_float', timeout=240, wip=False, **B08),
    dict(name='c08_bss_decode_double', props=['C08', 'C11', 'C12'], entry='h_bss_decode_double',
         enforce='carquet_byte_stream_split_decode_double', timeout=240, wip=False, **B08),
]
for w in BSS_WIDTHS:
    # safety only (C08); the layout relation (ghost i,b) is the CQV_CONTENT variant below (C11/C12)
    JOBS.append(dict(name='c08_bss_decode_generic_w%d' % w, props=['C08'], entry='h_bss_decode_generic',
                     enforce='carquet_byte_stream_split_decode', defines=['CQV_W=%d' % w], min_loop_obligations=2,
                     level='bounded', bound='type_length == %d (all counts, all data)' % w, timeout=300,
                     tier='quick' if w in (1, 4) else 'thorough', wip=(w in (12, 16)),
                     note=('ok on the unchanged tree; the run on the broken copy reported broken/vacuity instead of a violation '
                           '(not investigated) => not validated') if w in (12, 16) else None, **B08))
for w in (1, 2, 4):
    JOBS.append(dict(name='c11_bss_decode_generic_layout_w%d' % w, props=['C11', 'C12'], entry='h_bss_decode_generic',
                     enforce='carquet_byte_stream_split_decode', defines=['CQV_W=%d' % w, 'CQV_CONTENT=1'], min_loop_obligations=2,
                     level='bounded', bound='type_length == %d (all counts, all data)' % w, timeout=400, est_s=200,
                     tier='thorough', wip=True, **B08))

# ---- dictionary ----
D08 = dict(overlays=['contracts/dictionary.ovl'], harness='harness/C08/dictionary.c', includes=['.'],
           extra_sources=['stubs/mem_stubs.c', 'stubs/plain_stubs.c'],
           cbmc_flags=['--malloc-may-fail', '--malloc-fail-null'], defines=['CQV_RLE_STUB_FRESH_OUTPUT=1'],
           trusted=['stubs/plain_stubs.c: carquet_rle_decode_all as contract (-1 or n <= max_values, arbitrary uint32 values written)'])
DICT_NOTE = ('FINDING: `(int32_t)indices[i] >= dict_count` accepts indices >= 2^31 (negative after the cast): '
             'dict_data + indices[i]*width is read far outside the dictionary')
for t in ('int32', 'int64', 'float', 'double'):
    JOBS.append(dict(name='c08_dict_decode_' + t, props=['C08'], entry='h_dict_decode_' + t,
                     enforce='carquet_dictionary_decode_' + t, min_loop_obligations=1, timeout=240, wip=True,
                     replayer=dict(kind='fuzz', harness='replay/fz/dict_decode.c', max_len=32, secs=20,
                                   sources=['src/encoding/dictionary.c', 'src/encoding/rle.c', 'src/core/buffer.c', 'src/core/bitpack.c']),
                     note=DICT_NOTE, **D08))

# ---- C11/C12: PLAIN encoders ----
BUF_TRUST = ['stubs/plain_stubs.c: carquet_buffer_append/append_u32_le/advance as recorded-call stubs (which bytes are handed '
             'to the buffer); storing them is the buffer family\'s contract']
JOBS.append(dict(name='c11_plain_encode_boolean', props=['C11', 'C12'], entry='h_enc_boolean', enforce='carquet_encode_plain_boolean',
                 overlays=['contracts/plain.ovl'], harness='harness/C11/plain.c', includes=['.'],
                 extra_sources=['stubs/plain_stubs.c'], defines=['CQV_OWN_MEMSET=1'], min_loop_obligations=1, timeout=300, wip=True,
                 trusted=BUF_TRUST + ['stubs/plain_stubs.c: memset with ghost-index postcondition'],
                 note='FINDING: an empty boolean sequence (count == 0) is reported as CARQUET_ERROR_OUT_OF_MEMORY '
                      '(carquet_buffer_advance returns NULL for size 0)'))
for w, t in enumerate(['int32', 'int64', 'float', 'double', 'fixed_byte_array']):
    JOBS.append(dict(name='c11_plain_encode_' + t, props=['C11', 'C12'], entry='h_enc_fixedwidth', harness='harness/C11/plain.c',
                     includes=['.'], extra_sources=['stubs/mem_stubs.c', 'stubs/plain_stubs.c'], defines=['CQV_WHICH=%d' % w],
                     loop_contracts=False, backend=['z3', 'sat'] if w == 4 else 'sat', timeout=240,
                     functions=['carquet_encode_plain_' + t], trusted=BUF_TRUST, wip=False))

# ---- C11/C12: BYTE_STREAM_SPLIT encoders ----
B11 = dict(B08, harness='harness/C11/bss.c')
JOBS += [
    dict(name='c11_bss_encode_float', props=['C11', 'C12'], entry='h_bss_encode_float',
         enforce='carquet_byte_stream_split_encode_float', timeout=240, wip=True, **B11),
    dict(name='c11_bss_encode_double', props=['C11', 'C12'], entry='h_bss_encode_double',
         enforce='carquet_byte_stream_split_encode_double', timeout=240, wip=True, **B11),
]
for w in (1, 2, 4):
    JOBS.append(dict(name='c11_bss_encode_generic_w%d' % w, props=['C11', 'C12'], entry='h_bss_encode_generic',
                     enforce='carquet_byte_stream_split_encode', defines=['CQV_W=%d' % w, 'CQV_CONTENT=1'], min_loop_obligations=2,
                     level='bounded', bound='type_length == %d (all counts, all data)' % w, timeout=400, est_s=200,
                     tier='thorough', wip=True, **B11))

# ---- C11: dictionary encoder index width ----
JOBS.append(dict(name='c11_dict_bit_width_for_count', props=['C11'], entry='h_bit_width_for_count', harness='harness/C11/dictionary.c',
                 includes=['.'], loop_contracts=False, unwind=34, functions=['bit_width_for_count'], timeout=120, wip=False))
