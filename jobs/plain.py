# PLAIN, BYTE_STREAM_SPLIT and dictionary encodings (C08 safety, C11 round trip, C12 layout)
P08 = dict(overlays=['contracts/plain.ovl'], harness='harness/C08/plain.c', includes=['.'])

JOBS = []
for t, nloops in [('boolean', 2), ('int32', 0), ('int64', 0), ('int96', 1), ('float', 0), ('double', 0),
                  ('byte_array', 1)]:
    fn = 'carquet_decode_plain_' + ('fixed_byte_array' if t == 'fixed' else t)
    JOBS.append(dict(name='c08_plain_' + t, props=['C08', 'C12'], entry='h_plain_' + t, enforce=fn,
                     min_loop_obligations=nloops, timeout=240, wip=True, **P08))
JOBS.append(dict(name='c08_plain_fixed', props=['C08', 'C12'], entry='h_plain_fixed', harness='harness/C08/plain.c',
                 includes=['.'], loop_contracts=False, backend=['z3', 'sat'], timeout=240,
                 functions=['carquet_decode_plain_fixed_byte_array'], wip=True))
# CQV_HUGE variant: count up to INT64_MAX (the output object is then an arbitrary object, the decoder must reject
# because count*width > input_size).  Exhibits the unchecked (size_t)count*width overflow: FINDING, jobs stay wip.
HUGE_NOTE = ('FINDING: (size_t)count*width wraps for count >= 2^64/width: decoder returns success for a count whose '
             'encoded size exceeds input_size (and copies/loops out of bounds); not reachable from the file reader (num_values is int32)')
for t, nloops in [('int32', 0), ('int64', 0), ('int96', 1), ('float', 0), ('double', 0)]:
    JOBS.append(dict(name='c08_plain_%s_hugecount' % t, props=['C08'], entry='h_plain_' + t, enforce='carquet_decode_plain_' + t,
                     defines=['CQV_HUGE=1'], min_loop_obligations=nloops, timeout=240, wip=True, note=HUGE_NOTE, **P08))
JOBS.append(dict(name='c08_plain_fixed_hugecount', props=['C08'], entry='h_plain_fixed', harness='harness/C08/plain.c',
                 includes=['.'], loop_contracts=False, backend=['z3', 'sat'], timeout=240, defines=['CQV_HUGE=1'],
                 functions=['carquet_decode_plain_fixed_byte_array'], wip=True, note=HUGE_NOTE))
JOBS += [
    dict(name='c08_plain_dispatch', props=['C08'], entry='h_plain_dispatch', loop_contracts=False,
         replace=['carquet_decode_plain_boolean', 'carquet_decode_plain_int96', 'carquet_decode_plain_byte_array'],
         functions=['carquet_decode_plain', 'carquet_decode_plain_int32', 'carquet_decode_plain_int64',
                    'carquet_decode_plain_float', 'carquet_decode_plain_double'], timeout=240, wip=True, **P08),
    dict(name='c08_plain_dispatch_fixed', props=['C08'], entry='h_plain_dispatch_fixed', harness='harness/C08/plain.c',
         includes=['.'], loop_contracts=False, backend=['z3', 'sat'], timeout=300, tier='thorough', est_s=150,
         functions=['carquet_decode_plain', 'carquet_decode_plain_fixed_byte_array'], wip=True),
]

# ---- BYTE_STREAM_SPLIT ----
B08 = dict(overlays=['contracts/bss.ovl'], harness='harness/C08/bss.c', includes=['.'],
           extra_sources=['stubs/mem_stubs.c', 'stubs/plain_stubs.c'],
           trusted=['stubs/plain_stubs.c: carquet_dispatch_byte_split_* (SIMD dispatcher entry points) as contracts: '
                    'ranges [0,count*w) accessible, output is the byte transposition of the input'])
BSS_WIDTHS = [1, 2, 3, 4, 5, 7, 8, 12, 16]
JOBS += [
    dict(name='c08_bss_decode_float', props=['C08', 'C11', 'C12'], entry='h_bss_decode_float',
         enforce='carquet_byte_stream_split_decode_float', timeout=240, wip=True, **B08),
    dict(name='c08_bss_decode_double', props=['C08', 'C11', 'C12'], entry='h_bss_decode_double',
         enforce='carquet_byte_stream_split_decode_double', timeout=240, wip=True, **B08),
]
for w in BSS_WIDTHS:
    JOBS.append(dict(name='c08_bss_decode_generic_w%d' % w, props=['C08', 'C11', 'C12'], entry='h_bss_decode_generic',
                     enforce='carquet_byte_stream_split_decode', defines=['CQV_W=%d' % w], min_loop_obligations=2,
                     level='bounded', bound='type_length == %d (all counts, all data)' % w, timeout=300,
                     tier='quick' if w in (1, 4, 12) else 'thorough', wip=True, **B08))
