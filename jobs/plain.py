# PLAIN, BYTE_STREAM_SPLIT and dictionary encodings (C08 safety, C11 round trip, C12 layout)
P08 = dict(overlays=['contracts/plain.ovl'], harness='harness/C08/plain.c', includes=['.'])

PLAIN_FZ = dict(kind='fuzz', harness='replay/fz/plain_decode.c', max_len=40, secs=20,
                sources=['src/encoding/plain.c', 'src/core/buffer.c'])

JOBS = []
for t, nloops in [('boolean', 2), ('int32', 0), ('int64', 0), ('int96', 1), ('float', 0), ('double', 0),
                  ('byte_array', 1)]:
    fn = 'carquet_decode_plain_' + ('fixed_byte_array' if t == 'fixed' else t)
    JOBS.append(dict(name='c08_plain_' + t, props=['C08', 'C12'], entry='h_plain_' + t, enforce=fn,
                     min_loop_obligations=nloops, timeout=240, wip=False, est_s=20 if t == 'boolean' else 10, **P08))
JOBS.append(dict(name='c08_plain_fixed', props=['C08', 'C12'], entry='h_plain_fixed', harness='harness/C08/plain.c',
                 includes=['.'], loop_contracts=False, backend=['cvc5', 'z3'], timeout=400, tier='thorough', est_s=150,
                 functions=['carquet_decode_plain_fixed_byte_array'], wip=True,
                 note='symbolic fixed_len: undecided since /repo 0b65e1b (count > input_size / fixed_len: divider + multiplier, '
                      'z3/cvc5/SAT time out at 400 s); decided per concrete width by c08_plain_fixed_w*'))
FIXED_WIDTHS = [1, 2, 3, 5, 12, 16, 255, 2147483647]
for w in FIXED_WIDTHS:
    JOBS.append(dict(name='c08_plain_fixed_w%d' % w, props=['C08', 'C12'], entry='h_plain_fixed', harness='harness/C08/plain.c',
                     includes=['.'], loop_contracts=False, defines=['CQV_FIXED_W=%d' % w], timeout=240, level='bounded',
                     bound='fixed_len == %d (all counts, sizes, data)' % w, tier='quick' if w in (1, 12, 16) else 'thorough',
                     functions=['carquet_decode_plain_fixed_byte_array'], replayer=PLAIN_FZ, wip=False))
    JOBS.append(dict(name='c08_plain_dispatch_fixed_w%d' % w, props=['C08'], entry='h_plain_dispatch_fixed', harness='harness/C08/plain.c',
                     includes=['.'], loop_contracts=False, defines=['CQV_FIXED_W=%d' % w], timeout=240, level='bounded',
                     bound='type == FIXED_LEN_BYTE_ARRAY, type_length == %d' % w, tier='quick' if w in (12,) else 'thorough',
                     functions=['carquet_decode_plain', 'carquet_decode_plain_fixed_byte_array'], wip=False))
# (the former *_hugecount variants are now the main jobs: no bound on count, see harness/C08/plain.c)
for j_ in JOBS:
    j_['replayer'] = PLAIN_FZ
JOBS += [
    dict(name='c08_plain_dispatch', props=['C08'], entry='h_plain_dispatch', loop_contracts=False,
         replace=['carquet_decode_plain_boolean', 'carquet_decode_plain_int96', 'carquet_decode_plain_byte_array'],
         functions=['carquet_decode_plain', 'carquet_decode_plain_int32', 'carquet_decode_plain_int64',
                    'carquet_decode_plain_float', 'carquet_decode_plain_double'], timeout=240, wip=False, **P08),
    dict(name='c08_plain_dispatch_fixed', props=['C08'], entry='h_plain_dispatch_fixed', harness='harness/C08/plain.c',
         includes=['.'], loop_contracts=False, backend=['z3', 'sat'], timeout=300, tier='thorough', est_s=150,
         functions=['carquet_decode_plain', 'carquet_decode_plain_fixed_byte_array'], wip=True,
         note='symbolic type_length: undecided since /repo 0b65e1b, see c08_plain_dispatch_fixed_w*'),
]

# ---- BYTE_STREAM_SPLIT ----
B08 = dict(overlays=['contracts/bss.ovl'], harness='harness/C08/bss.c', includes=['.'],
           extra_sources=['stubs/mem_stubs.c', 'stubs/plain_stubs.c'],
           trusted=['stubs/plain_stubs.c: carquet_dispatch_byte_split_* (SIMD dispatcher entry points) as contracts: '
                    'ranges [0,count*w) accessible, output is the byte transposition of the input'])
BSS_WIDTHS = [1, 2, 3, 4, 5, 7, 8, 12, 16]
JOBS += [
    dict(name='c08_bss_decode_float', props=['C08', 'C11', 'C12'], entry='h_bss_decode_float',
         enforce='carquet_byte_stream_split_decode_float', timeout=240, wip=False, **B08),
    dict(name='c08_bss_decode_double', props=['C08', 'C11', 'C12'], entry='h_bss_decode_double',
         enforce='carquet_byte_stream_split_decode_double', timeout=240, wip=False, **B08),
]
for w in BSS_WIDTHS:
    # safety only (C08); the layout relation (ghost i,b) is the CQV_CONTENT variant below (C11/C12)
    JOBS.append(dict(name='c08_bss_decode_generic_w%d' % w, props=['C08'], entry='h_bss_decode_generic',
                     enforce='carquet_byte_stream_split_decode', defines=['CQV_W=%d' % w], min_loop_obligations=2,
                     level='bounded', bound='type_length == %d (all counts, all data)' % w, timeout=300,
                     tier='quick' if w in (1, 4) else 'thorough', wip=False, **B08))
for w in (1, 2, 4):
    JOBS.append(dict(name='c11_bss_decode_generic_layout_w%d' % w, props=['C11', 'C12'], entry='h_bss_decode_generic',
                     enforce='carquet_byte_stream_split_decode', defines=['CQV_W=%d' % w, 'CQV_CONTENT=1'], min_loop_obligations=2,
                     level='bounded', bound='type_length == %d (all counts, all data)' % w, timeout=400, est_s=80,
                     tier='thorough', wip=False, **B08))

# ---- dictionary ----
D08 = dict(overlays=['contracts/dictionary.ovl'], harness='harness/C08/dictionary.c', includes=['.'],
           extra_sources=['stubs/mem_stubs.c', 'stubs/plain_stubs.c'],
           cbmc_flags=['--malloc-may-fail', '--malloc-fail-null'], defines=['CQV_RLE_STUB_FRESH_OUTPUT=1'],
           trusted=['stubs/plain_stubs.c: carquet_rle_decode_all as contract (-1 or n <= max_values, arbitrary uint32 values written)'])
DICT_NOTE = ('fixed upstream by /repo 5f5c9b3; was FINDING: `(int32_t)indices[i] >= dict_count` accepts indices >= 2^31 (negative after the cast): '
             'dict_data + indices[i]*width is read far outside the dictionary')
for t in ('int32', 'int64', 'float', 'double'):
    JOBS.append(dict(name='c08_dict_decode_' + t, props=['C08'], entry='h_dict_decode_' + t,
                     enforce='carquet_dictionary_decode_' + t, min_loop_obligations=1, timeout=240, wip=False,
                     replayer=dict(kind='fuzz', harness='replay/fz/dict_decode.c', max_len=32, secs=20,
                                   sources=['src/encoding/dictionary.c', 'src/encoding/rle.c', 'src/core/buffer.c', 'src/core/bitpack.c']),
                     note=DICT_NOTE, **D08))

# ---- C11/C12: PLAIN encoders ----
BUF_TRUST = ['stubs/plain_stubs.c: carquet_buffer_append/append_u32_le/advance as recorded-call stubs (which bytes are handed '
             'to the buffer); storing them is the buffer family\'s contract']
JOBS.append(dict(name='c11_plain_encode_boolean', props=['C11', 'C12'], entry='h_enc_boolean', enforce='carquet_encode_plain_boolean',
                 overlays=['contracts/plain.ovl'], harness='harness/C11/plain.c', includes=['.'],
                 extra_sources=['stubs/plain_stubs.c'], defines=['CQV_OWN_MEMSET=1'], min_loop_obligations=1, timeout=300, wip=False,
                 trusted=BUF_TRUST + ['stubs/plain_stubs.c: memset with ghost-index postcondition'],
                 note='fixed upstream by /repo b69c313; was FINDING: an empty boolean sequence (count == 0) is reported as CARQUET_ERROR_OUT_OF_MEMORY '
                      '(carquet_buffer_advance returns NULL for size 0)'))
for w, t in enumerate(['int32', 'int64', 'float', 'double', 'fixed_byte_array']):
    JOBS.append(dict(name='c11_plain_encode_' + t, props=['C11', 'C12'], entry='h_enc_fixedwidth', harness='harness/C11/plain.c',
                     includes=['.'], extra_sources=['stubs/mem_stubs.c', 'stubs/plain_stubs.c'], defines=['CQV_WHICH=%d' % w],
                     loop_contracts=False, backend=['z3', 'sat'] if w == 4 else 'sat', timeout=240,
                     functions=['carquet_encode_plain_' + t], trusted=BUF_TRUST, wip=False))

# ---- C11/C12: BYTE_STREAM_SPLIT encoders ----
B11 = dict(B08, harness='harness/C11/bss.c')
ENC_WRAP_NOTE = ('FINDING: count is not checked for < 0 and (size_t)count*width wraps: e.g. encode_float(count=-2^62+1, capacity=16) '
                 'returns CARQUET_OK with *bytes_written == 4; the single failing obligation is the ensures "OK ==> count >= 0 && '
                 'bytes_written == count*w <= capacity"; passes with the proposed fix (/tmp/plain/demo/bss_fix.diff)')
JOBS += [
    dict(name='c11_bss_encode_float', props=['C11', 'C12'], entry='h_bss_encode_float',
         enforce='carquet_byte_stream_split_encode_float', timeout=240, wip=False, **B11),
    dict(name='c11_bss_encode_double', props=['C11', 'C12'], entry='h_bss_encode_double',
         enforce='carquet_byte_stream_split_encode_double', timeout=240, wip=False, **B11),
]
for w in (1, 2, 4):
    JOBS.append(dict(name='c11_bss_encode_generic_w%d' % w, props=['C11', 'C12'], entry='h_bss_encode_generic',
                     enforce='carquet_byte_stream_split_encode', defines=['CQV_W=%d' % w, 'CQV_CONTENT=1'], min_loop_obligations=2,
                     level='bounded', bound='type_length == %d (all counts, all data)' % w, timeout=400, est_s=120,
                     tier='thorough', wip=False, **B11))

# ---- C11: dictionary encoder index width ----
JOBS.append(dict(name='c11_dict_bit_width_for_count', props=['C11'], entry='h_bit_width_for_count', harness='harness/C11/dictionary.c',
                 includes=['.'], loop_contracts=False, unwind=34, functions=['bit_width_for_count'], timeout=120, wip=False))

# ---- count wrap in the (unchanged) BSS decoders and dictionary decoders: FINDING jobs, stay wip ----
WRAP_NOTE = ('FINDING: (size_t)count*width wraps for count >= 2^64/width and for some negative counts: returns CARQUET_OK although '
             'count*width > data_size / count < 0; the kernels are then called with that count')
JOBS += [
    dict(name='c08_bss_decode_float_hugecount', props=['C08'], entry='h_bss_decode_float', defines=['CQV_HUGE=1'],
         enforce='carquet_byte_stream_split_decode_float', timeout=240, wip=False, **B08),
    dict(name='c08_bss_decode_double_hugecount', props=['C08'], entry='h_bss_decode_double', defines=['CQV_HUGE=1'],
         enforce='carquet_byte_stream_split_decode_double', timeout=240, wip=False, **B08),
    dict(name='c08_bss_decode_generic_w4_hugecount', props=['C08'], entry='h_bss_decode_generic', defines=['CQV_HUGE=1', 'CQV_W=4'],
         enforce='carquet_byte_stream_split_decode', min_loop_obligations=2, level='bounded', bound='type_length == 4',
         timeout=240, wip=False, **B08),
    dict(name='c08_dict_decode_int32_hugecount', props=['C08'], entry='h_dict_decode_int32', defines=['CQV_HUGE=1', 'CQV_RLE_STUB_FRESH_OUTPUT=1'],
         enforce='carquet_dictionary_decode_int32', min_loop_obligations=1, timeout=240, wip=True,
         note='kept wip: after fix 47bec3f the remaining failure is the harness, not the code: for counts whose output object exceeds 2^40 bytes no caller-supplied object can be modelled (assumption A2), so output[i] is checked against an arbitrary object',
         **{k: v for k, v in D08.items() if k != 'defines'}),
]

# ---- C11/C12: PLAIN int96 / byte_array encoders (recorded calls, ghost call number / ghost element) ----
E11 = dict(overlays=['contracts/plain.ovl'], harness='harness/C11/plain.c', includes=['.'], props=['C11', 'C12'],
           extra_sources=['stubs/mem_stubs.c', 'stubs/plain_stubs.c'], min_loop_obligations=1, timeout=300, trusted=BUF_TRUST)
JOBS += [
    dict(name='c11_plain_encode_int96', entry='h_enc_int96', enforce='carquet_encode_plain_int96', wip=False, est_s=60, **E11),
    dict(name='c11_plain_encode_byte_array', entry='h_enc_byte_array', enforce='carquet_encode_plain_byte_array', wip=False, **E11),
]

# ---- C11: dictionary builder (bounded) ----
JOBS.append(dict(name='c11_dict_builder_add', props=['C11'], entry='h_dict_builder_add', harness='harness/C11/dictionary.c',
                 includes=['.'], loop_contracts=False, unwind=10, extra_sources=['stubs/mem_stubs.c', 'stubs/plain_stubs.c'],
                 cbmc_flags=['--malloc-may-fail', '--malloc-fail-null'], level='bounded',
                 bound='num_buckets == 1024 (as set by dict_builder_init), hash chain <= 2 entries, value_size <= 8, index array capacity <= 4 (realloc path included)',
                 functions=['dict_builder_add', 'dict_hash'], trusted=BUF_TRUST, timeout=300, tier='thorough', wip=True,
                 note='UNDECIDED: SAT times out at 300 s (two unrolled FNV hash computations + realloc model); not a finding'))

JOBS.append(dict(name='c11_dict_builder_injective', props=['C11'], entry='h_dict_builder_inj', harness='harness/C11/dictionary.c',
                 includes=['.'], loop_contracts=False, unwind=10, extra_sources=['stubs/plain_stubs.c'], defines=['CQV_DICT_INJ=1'],
                 cbmc_flags=['--malloc-may-fail', '--malloc-fail-null'], level='bounded',
                 bound='one existing entry in the hash chain, value and entry lengths <= 4, all bytes (single-bucket table: every pair collides)',
                 functions=['dict_builder_add'], trusted=BUF_TRUST, timeout=600, est_s=30, wip=False))
