# RLE / bit-packed hybrid (src/encoding/rle.c): C08 decoder safety, C11 encoder count preservation,
# C12 run header forms.
STUB_TRUST = ['stubs/rle_stubs.c: assumed contracts for carquet_bitunpack8_32 / carquet_bitpack8_32 (src/core/bitpack.c: '
              'reads bit_width bytes, writes 8 values / reads 8 values, writes bit_width bytes; contents arbitrary) and '
              'carquet_buffer_append (src/core/buffer.c: data readable for size bytes, may fail)',
              'rle.c scalar path (#if defined(__SSE2__) / __ARM_NEON blocks compiled out by #undef in the harness)']
# `x << (i * 8)` with i >= 4 in the RLE value-byte loops (bit widths 33..255): undefined shift, reported as a
# finding / supporting fact (DESIGN 5 C08), not part of the property's text (no memory access depends on it)
SHIFT_SOFT = [r'^shift distance too large in .*<< i \* 8']

D = dict(overlays=['contracts/rle.ovl'], harness='harness/C08/rle.c', prop='C08',
         extra_sources=['stubs/mem_stubs.c', 'stubs/rle_stubs.c'], trusted=STUB_TRUST)
W = dict(wip=True)
DEC_HELPERS = ['start_new_run', 'fill_bitpack_buffer']
RLE_SRCS = ['src/encoding/rle.c', 'src/core/bitpack.c', 'src/core/buffer.c']
FZ_DEC = dict(kind='fuzz', harness='replay/fz/rle_decode.c', sources=RLE_SRCS, max_len=48, secs=20)
FZ_PFX = dict(kind='fuzz', harness='replay/fz/rle_levels_prefixed.c', sources=RLE_SRCS, max_len=48, secs=20)

E = dict(overlays=['contracts/rle.ovl'], harness='harness/C11/rle.c', prop='C11',
         extra_sources=['stubs/mem_stubs.c', 'stubs/rle_stubs.c'], trusted=STUB_TRUST + [
             'RLE encoder jobs: sequences of at most 2^31-1 values; bit width 0..32 (encoder side)'])
ENC_HELPERS = ['flush_bitpack', 'flush_rle']

JOBS = [
    dict(name='c08_rle_read_varint', replayer=FZ_DEC, entry='h_rle_read_varint', enforce='read_varint', min_loop_obligations=1, **D),
    dict(name='c08_rle_start_new_run', replayer=FZ_DEC, entry='h_rle_start_new_run', enforce='start_new_run',
         replace=['start_new_run__rec', 'read_varint'], min_loop_obligations=1, soft=SHIFT_SOFT, **D),
    dict(name='c08_rle_fill_bitpack_buffer', replayer=FZ_DEC, entry='h_rle_fill_bitpack', enforce='fill_bitpack_buffer',
         loop_contracts=False, **D),
    dict(name='c08_rle_decoder_init', entry='h_rle_init', enforce='carquet_rle_decoder_init', loop_contracts=False,
         defines=['CQV_MEMSET_EXACT=128'], unwindset=['memset.0:129'], **D),
    dict(name='c08_rle_decoder_has_next', entry='h_rle_has_next', enforce='carquet_rle_decoder_has_next',
         loop_contracts=False, **D),
    dict(name='c08_rle_decoder_get', replayer=FZ_DEC, entry='h_rle_get', enforce='carquet_rle_decoder_get', replace=DEC_HELPERS,
         loop_contracts=False, **D),
    dict(name='c08_rle_decoder_get_batch', replayer=FZ_DEC, entry='h_rle_get_batch', enforce='carquet_rle_decoder_get_batch',
         replace=DEC_HELPERS, min_loop_obligations=4, est_s=60, **D),
    dict(name='c08_rle_decoder_skip', replayer=FZ_DEC, entry='h_rle_skip', enforce='carquet_rle_decoder_skip',
         replace=DEC_HELPERS, min_loop_obligations=2, est_s=60, **D),
    dict(name='c08_rle_decode_all', replayer=FZ_DEC, entry='h_rle_decode_all', enforce='carquet_rle_decode_all',
         replace=['carquet_rle_decoder_init', 'carquet_rle_decoder_get_batch'], loop_contracts=False, **D),
    dict(name='c08_rle_decode_levels', replayer=FZ_DEC, entry='h_rle_decode_levels', enforce='carquet_rle_decode_levels',
         min_loop_obligations=6, soft=SHIFT_SOFT, est_s=90, **D),
    dict(name='c08_rle_decode_levels_prefixed', replayer=FZ_PFX, entry='h_rle_decode_levels_prefixed',
         enforce='carquet_rle_decode_levels_prefixed', replace=['carquet_rle_decode_levels'], loop_contracts=False,
         note='FINDING (genuine, native ASan demo /tmp/rle/demo_prefixed.c): 4 + rle_length wraps in 32 bits, decode_levels is '
              'called with a window beyond the input; stays wip until /repo is fixed', **W, **D),
    ] + [
    # ---- C11: encoder count preservation (ghost state) --------------------------------------------
    dict(name='c11_rle_write_varint', entry='h_c11_write_varint', enforce='write_varint', min_loop_obligations=1, **W, **E),
    dict(name='c11_rle_flush_rle', entry='h_c11_flush_rle', enforce='flush_rle', replace=['write_varint'],
         min_loop_obligations=1, **W, **E),
    dict(name='c11_rle_flush_bitpack', entry='h_c11_flush_bitpack', enforce='flush_bitpack', replace=['write_varint'],
         min_loop_obligations=2, **W, **E),
    dict(name='c11_rle_encoder_init', entry='h_c11_encoder_init', enforce='carquet_rle_encoder_init', loop_contracts=False,
         defines=['CQV_MEMSET_EXACT=128'], unwindset=['memset.0:129'], **W, **E),
    dict(name='c11_rle_encoder_put', entry='h_c11_put', enforce='carquet_rle_encoder_put', replace=ENC_HELPERS,
         min_loop_obligations=1, **W, **E),
    dict(name='c11_rle_encoder_flush', entry='h_c11_flush', enforce='carquet_rle_encoder_flush', replace=ENC_HELPERS,
         min_loop_obligations=1, **W, **E),
    dict(name='c11_rle_encoder_flush_append_failures', entry='h_c11_flush', enforce='carquet_rle_encoder_flush',
         replace=ENC_HELPERS, min_loop_obligations=1, defines=['RLE_CHECK_APPEND=1'], **W, **E),
]
