# RLE / bit-packed hybrid (src/encoding/rle.c): C08 decoder safety, C11 encoder count preservation,
# C12 run header forms.
STUB_TRUST = ['stubs/rle_stubs.c: assumed contracts for carquet_bitunpack8_32 / carquet_bitpack8_32 (src/core/bitpack.c: '
              'reads bit_width bytes, writes 8 values / reads 8 values, writes bit_width bytes; contents arbitrary) and '
              'carquet_buffer_append (src/core/buffer.c: data readable for size bytes, may fail)',
              'rle.c scalar path (#if defined(__SSE2__) / __ARM_NEON blocks compiled out by #undef in the harness)']

D = dict(overlays=['contracts/rle.ovl'], harness='harness/C08/rle.c', prop='C08',
         extra_sources=['stubs/mem_stubs.c', 'stubs/rle_stubs.c'], trusted=STUB_TRUST)
W = dict(wip=True)
DEC_HELPERS = ['start_new_run', 'fill_bitpack_buffer']
RLE_SRCS = ['src/encoding/rle.c', 'src/core/bitpack.c', 'src/core/buffer.c']
FZ_DEC = dict(kind='fuzz', harness='replay/fz/rle_decode.c', sources=RLE_SRCS, max_len=48, secs=20)
FZ_PFX = dict(kind='fuzz', harness='replay/fz/rle_levels_prefixed.c', sources=RLE_SRCS, max_len=48, secs=20)

E = dict(overlays=['contracts/rle.ovl'], harness='harness/C11/rle.c', prop='C11',
         extra_sources=['stubs/mem_stubs.c', 'stubs/rle_stubs.c'], trusted=STUB_TRUST + [
             'RLE encoder jobs: sequences of at most 2^31-1 values; bit width 0..32 (encoder side)'])
ENC_HELPERS = ['flush_bitpack', 'flush_rle', 'complete_bitpack_group_from_run']
PUT_FLUSH = ['carquet_rle_encoder_init', 'carquet_rle_encoder_put', 'carquet_rle_encoder_flush']
FZ_RT = dict(kind='fuzz', harness='replay/fz/rle_roundtrip.c', sources=RLE_SRCS, max_len=48, secs=20)

S12 = dict(overlays=['contracts/rle.ovl'], harness='harness/C12/rle.c', prop='C12', loop_contracts=False,
           defines=['RLE_STUB_RECORD=1'], extra_sources=['stubs/mem_stubs.c', 'stubs/rle_stubs.c'],
           trusted=STUB_TRUST + ['specs/rle_spec.h is a faithful reading of Encodings.md (RLE = 3)',
                                 'stubs/rle_stubs.c -DRLE_STUB_RECORD: carquet_buffer_append as an exact recording model'])
FZ_SPEC = dict(kind='fuzz', harness='replay/fz/rle_spec_decode.c', sources=RLE_SRCS, max_len=48, secs=20)

JOBS = [
    dict(name='c08_rle_read_varint', replayer=FZ_DEC, entry='h_rle_read_varint', enforce='read_varint', min_loop_obligations=1, **D),
    dict(name='c08_rle_start_new_run', replayer=FZ_DEC, entry='h_rle_start_new_run', enforce='start_new_run',
         replace=['read_varint'], min_loop_obligations=2, **D),
    dict(name='c08_rle_fill_bitpack_buffer', replayer=FZ_DEC, entry='h_rle_fill_bitpack', enforce='fill_bitpack_buffer',
         loop_contracts=False, **D),
    dict(name='c08_rle_decoder_init', entry='h_rle_init', enforce='carquet_rle_decoder_init', loop_contracts=False,
         defines=['CQV_MEMSET_EXACT=128'], unwindset=['memset.0:129'], **D),
    # C11 (stream decoder agrees with the one-shot decoder under chunking): has_next() is true exactly while values are
    # pending in the current run or input is left -- the statement every get_batch/skip loop relies on
    dict(name='c08_rle_decoder_has_next', entry='h_rle_has_next', enforce='carquet_rle_decoder_has_next',
         loop_contracts=False, **dict(D, props=['C08', 'C11'])),
    dict(name='c08_rle_decoder_get', replayer=FZ_DEC, entry='h_rle_get', enforce='carquet_rle_decoder_get', replace=DEC_HELPERS,
         loop_contracts=False, **D),
    dict(name='c08_rle_decoder_get_batch', replayer=FZ_DEC, entry='h_rle_get_batch', enforce='carquet_rle_decoder_get_batch',
         replace=DEC_HELPERS, min_loop_obligations=4, est_s=60, **D),
    dict(name='c08_rle_decoder_skip', replayer=FZ_DEC, entry='h_rle_skip', enforce='carquet_rle_decoder_skip',
         replace=DEC_HELPERS, min_loop_obligations=2, est_s=140, **D),
    dict(name='c08_rle_decode_all', replayer=FZ_DEC, entry='h_rle_decode_all', enforce='carquet_rle_decode_all',
         replace=['carquet_rle_decoder_init', 'carquet_rle_decoder_get_batch'], loop_contracts=False, **D),
    dict(name='c08_rle_decode_levels', replayer=FZ_DEC, entry='h_rle_decode_levels', enforce='carquet_rle_decode_levels',
         min_loop_obligations=6, est_s=40, **D),
    dict(name='c08_rle_decode_levels_prefixed', replayer=FZ_PFX, entry='h_rle_decode_levels_prefixed',
         enforce='carquet_rle_decode_levels_prefixed', replace=['carquet_rle_decode_levels'], loop_contracts=False, **D),
    ] + [
    # ---- C11: encoder count preservation (ghost state) --------------------------------------------
    dict(name='c11_rle_enc_append', entry='h_c11_enc_append', enforce='enc_append', loop_contracts=False, **E),
    dict(name='c11_rle_complete_group', entry='h_c11_complete_group', enforce='complete_bitpack_group_from_run',
         replace=['flush_bitpack'], min_loop_obligations=1, **E),
    dict(name='c11_rle_encoder_put_repeat', entry='h_c11_put_repeat', enforce='carquet_rle_encoder_put_repeat',
         replace=['carquet_rle_encoder_put'], min_loop_obligations=1, **E),
    dict(name='c11_rle_encode_all', entry='h_c11_encode_all', enforce='carquet_rle_encode_all', replace=PUT_FLUSH,
         min_loop_obligations=1, replayer=FZ_RT, **E),
    dict(name='c11_rle_encode_levels', entry='h_c11_encode_levels', enforce='carquet_rle_encode_levels', replace=PUT_FLUSH,
         min_loop_obligations=1, replayer=FZ_RT, **E),
    dict(name='c11_rle_write_varint', entry='h_c11_write_varint', enforce='write_varint', min_loop_obligations=1, **E),
    dict(name='c11_rle_flush_rle', entry='h_c11_flush_rle', enforce='flush_rle', replace=['write_varint'],
         min_loop_obligations=1, **E),
    dict(name='c11_rle_flush_bitpack', entry='h_c11_flush_bitpack', enforce='flush_bitpack', replace=['write_varint'],
         min_loop_obligations=2, **E),
    dict(name='c11_rle_encoder_init', entry='h_c11_encoder_init', enforce='carquet_rle_encoder_init', loop_contracts=False,
         defines=['CQV_MEMSET_EXACT=128'], unwindset=['memset.0:129'], **E),
    # also C12: ghost G_pad == 0 at every RLE-run emission = no zero-padded literal group in the middle of the stream, which an
    # independent decoder would read as real values
    dict(name='c11_rle_encoder_put', replayer=FZ_RT, entry='h_c11_put', enforce='carquet_rle_encoder_put', replace=ENC_HELPERS,
         min_loop_obligations=1, **dict(E, props=['C11', 'C12'])),
    dict(name='c11_rle_encoder_flush', replayer=FZ_RT, entry='h_c11_flush', enforce='carquet_rle_encoder_flush', replace=ENC_HELPERS,
         min_loop_obligations=1, **dict(E, props=['C11', 'C12'])),
    dict(name='c11_rle_encoder_flush_append_failures', entry='h_c11_flush', enforce='carquet_rle_encoder_flush',
         replace=ENC_HELPERS, min_loop_obligations=1, defines=['RLE_CHECK_APPEND=1'], **E),
    ] + [
    # ---- C12: run header forms vs. specs/rle_spec.h (harness is the contract, loops unwound completely) ----
    dict(name='c12_rle_read_varint_spec', entry='h_c12_read_varint', functions=['read_varint'], unwind=7, **S12),
    dict(name='c12_rle_write_varint_spec', entry='h_c12_write_varint', functions=['write_varint'], unwind=33, **S12),
    dict(name='c12_rle_flush_rle_form', entry='h_c12_flush_rle_form', functions=['flush_rle', 'write_varint'], unwind=33, **S12),
    dict(name='c12_rle_flush_bitpack_form', entry='h_c12_flush_bitpack_form', functions=['flush_bitpack', 'write_varint'],
         unwind=33, est_s=40, **S12),
    dict(name='c12_rle_start_new_run_forms', entry='h_c12_start_new_run_forms', functions=['start_new_run', 'read_varint'],
         unwind=7, replayer=FZ_SPEC,
         **S12),
]

# ---- C11: ghost-free bounded stand-in (no overlay => cannot drift): the real rle.c as it is, streaming decoder in the middle
# of a buffered bit-packed group, two chunks (get_batch/get_batch and skip/get_batch) inside the group, all group contents.
# Decides the delivery order also after the copy loop of get_batch/skip was restructured (seed C11-7).
for _nm, _defs in [('c11_rle_plain_chunks', []), ('c11_rle_plain_skip_then_get', ['CQV_SKIP_FIRST=1'])]:
    JOBS.append(dict(name=_nm, prop='C11', overlays=[], harness='harness/C11/rle_plain.c', includes=['.'],
                     defines=['CQV_MEMCPY_EXACT=32'] + _defs, entry='h_plain_chunks', loop_contracts=False, unwind=10, unwindset=['memcpy.0:34'],
                     level='bounded', bound='both chunks inside one buffered group: c1 + c2 <= bitpack_count - bitpack_pos <= 8; '
                     'any group contents, group position, bit width 0..32, pending run length',
                     tier='thorough', backend='sat', checks=['--bounds-check', '--pointer-check'],
                     functions=['carquet_rle_decoder_get_batch', 'carquet_rle_decoder_skip', 'carquet_rle_decoder_has_next'],
                     est_s=520, timeout=1500, wip=True,   # skip/get twin seen ok once (510 s); get/get twin and the seed C11-7 run did not finish in that session
                     replayer=dict(kind='direct', harness='replay/direct/rle_chunks_selftest.c', sources=RLE_SRCS, vars={}),
                     note='no overlay: decides in-group delivery order also after the copy loop of get_batch was restructured'))
