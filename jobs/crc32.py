# C14 (function part) -- carquet's checksum function equals IEEE 802.3 CRC-32 (zlib crc32)
# Real code: src/util/crc32.c, software slicing-by-8 path (the ARM hardware path is behind
# #if defined(__aarch64__)||defined(__arm__)... and is compiled out on this x86-64 target).
B = dict(prop='C14', overlays=['contracts/crc32.ovl'], harness='harness/C14/crc32.c', includes=['.'],
         defines=['CQV_MEMCPY_EXACT=16'], wip=True,
         replayer=dict(kind='direct', harness='replay/direct/crc32_selftest.c', sources=[], vars={}))
STATE = 'crc32.c module state is {flag==0} or {flag==1, tables as left by crc32_init_tables}: both statics are file-local and written only by crc32_init_tables (harness cqv_module_state)'
SLIDES = ['cqv_lemma_slide%d' % k for k in range(8)]

JOBS = [
    # 1. table facts on the tables produced by the real crc32_init_tables (executed, unwound completely)
    dict(name='c14_crc32_tables', entry='h_tables', loop_contracts=False, unwind=257,
         functions=['crc32_init_tables'], est_s=15, **B),
    # 2. byte step (tail-loop statement) == 8 reflected bit-serial steps, all (crc, byte)
    dict(name='c14_crc32_lemma_byte', entry='h_lemma_byte', enforce='cqv_spec_byte', loop_contracts=False,
         unwind=257, functions=[], est_s=20, timeout=300, **B),
    # 4a. Tn[x] as zero-byte steps of T0[x] (2^8)
    dict(name='c14_crc32_lemma_rec', entry='h_lemma_rec', enforce='cqv_lemma_rec', loop_contracts=False,
         unwind=257, functions=[], est_s=30, timeout=300, **B),
]
# 4a. every table is GF(2)-linear (2^16 inputs each)
for k in range(8):
    JOBS.append(dict(name='c14_crc32_lemma_lin%d' % k, entry='h_lemma_lin',
                     loop_contracts=False, unwind=257, functions=[], est_s=40, timeout=300,
                     **dict(B, defines=B['defines'] + ['CQV_K=%d' % k])))
# 4b. slide lemmas: H_k(s) == H_{k+1}(bytestep(s, d_k)), all inputs; harness is the contract
for k in range(8):
    JOBS.append(dict(name='c14_crc32_lemma_slide%d' % k, entry='h_lemma_slide',
                     loop_contracts=False, unwind=257, functions=[], est_s=60, timeout=300,
                     replace=['cqv_lemma_lin', 'cqv_lemma_rec'],
                     **dict(B, defines=B['defines'] + ['CQV_K=%d' % k])))
JOBS += [
    # 4. eight bit-serial byte steps == block statement (2^96), from the slide lemmas and the byte lemma
    dict(name='c14_crc32_lemma_block8', entry='h_lemma_block8', loop_contracts=False,
         replace=SLIDES + ['cqv_spec_byte'], unwind=257, functions=[], est_s=30, timeout=300,
         **dict(B, defines=B['defines'] + ['CQV_PROVE_BLOCK8=1'])),
    # 3.+4.+5. the real function: both loops in lockstep with the ghost bit-serial register, unbounded length
] + [
    dict(name='c14_crc32_slicing_by_8_state%d' % st, entry='h_slicing', loop_contracts=True, unwind=257,
         replace=['cqv_spec_block8', 'cqv_spec_byte'], unwindset=['memcpy.0:17'], min_loop_obligations=2,
         functions=['crc32_slicing_by_8', 'crc32_init_tables'], trusted=[STATE], est_s=140, timeout=900,
         note='module state %d (%s)' % (st, 'tables already initialized' if st else 'first call: the function runs crc32_init_tables itself'),
         **dict(B, defines=B['defines'] + ['CQV_STATE=%d' % st]))
    for st in (1, 0)
] + [
    dict(name='c14_crc32', entry='h_crc32', enforce='carquet_crc32', replace=['crc32_slicing_by_8'],
         loop_contracts=False, **B),
    dict(name='c14_crc32_update', entry='h_crc32_update', enforce='carquet_crc32_update', replace=['crc32_slicing_by_8'],
         loop_contracts=False, **B),
]

# 6. bounded cross-check without any contract or lemma: real carquet_crc32 / carquet_crc32_update on a
# buffer of concrete length and alignment offset, all data == explicit bit-serial loop; ghost wiring too
# (replay/direct/crc32_vs_zlib.c is a manual tool: len/off/crc0/split/b<i> from a file; the driver uses
#  replay/direct/crc32_selftest.c because CQV_LEN/CQV_OFF are constants and do not appear in the trace)
QUICK_B = {(0, 0), (1, 7)}
HARD = 'undecided: chained table steps without the lemma chain do not close (len 3: z3 and SAT time out at 200 s and SAT at 600 s; len 9 contains the 2^96 block identity, SAT >250 s)'
for n in [0, 1, 2, 3, 9]:
    for off in (range(0, 8) if n < 2 else [0]):
        JOBS.append(dict(name='c14_crc32_bounded_len%02d_off%d' % (n, off), entry='h_bounded', loop_contracts=False,
                         unwind=257, level='bounded', bound='length == %d bytes at offset %d of the buffer (all data, all start values)' % (n, off),
                         tier='quick' if (n, off) in QUICK_B else 'thorough',
                         functions=['carquet_crc32', 'carquet_crc32_update', 'crc32_slicing_by_8', 'crc32_init_tables'],
                         est_s=60, timeout=400, note=(HARD if n >= 2 else ''),
                         **dict(B, defines=B['defines'] + ['CQV_LEN=%d' % n, 'CQV_OFF=%d' % off])))
# 5b. composition law, bounded: total length n, every split point, all data
for n in (0, 1):
    JOBS.append(dict(name='c14_crc32_compose_len%02d' % n, entry='h_compose_bounded', loop_contracts=False,
                     unwind=257, level='bounded', bound='total length == %d bytes, every split point (all data, all start values)' % n,
                     tier='thorough', 
                     functions=['carquet_crc32', 'carquet_crc32_update'],
                     est_s=120, timeout=400, note='undecided: SAT and z3 time out at 200 s already for total length 1 (three dependent calls with a symbolic split)', **dict(B,  defines=B['defines'] + ['CQV_LEN=%d' % n, 'CQV_OFF=3'])))

# 7. ghost-free bounded stand-in (no overlay => cannot drift): the real file as it is, length n, all data
PLAIN_Q = {4, 7}
for n in [2, 3, 4, 5, 6, 7]:   # n = 8 (one slicing-by-8 block: the 2^96 identity without the lemma chain) does not finish in 900 s
    JOBS.append(dict(name='c14_crc32_plain_len%02d' % n, prop='C14', overlays=[], harness='harness/C14/crc32_plain.c',
                     includes=['.'], defines=['CQV_MEMCPY_EXACT=16', 'CQV_LEN=%d' % n], entry='h_plain', loop_contracts=False,
                     unwind=257, level='bounded', bound='length == %d bytes (all data), start value 0' % n,
                     tier='quick' if n in PLAIN_Q else 'thorough', backend='sat', checks=['--bounds-check', '--pointer-check'],
                     functions=['carquet_crc32', 'crc32_slicing_by_8', 'crc32_init_tables'],
                     est_s=90, timeout=900, wip=False,
                     replayer=dict(kind='direct', harness='replay/direct/crc32_selftest.c', sources=[], vars={}),
                     note='no overlay: decides short lengths also after the body of crc32_slicing_by_8 was restructured'))

# wip=False only for jobs seen `ok` on the unchanged tree AND seen failing on a deliberately broken
# copy of the sources (see the report).  The slide/block8 lemmas do not depend on the sources once
# L-lin/L-rec/L-byte are replaced by their contracts; they were checked for non-vacuity by breaking
# their statement instead (-DCQV_BREAK_H: slide3, slide4 fail; -DCQV_BREAK_CHAIN: block8 no longer closes).
VALIDATED = set(['c14_crc32_tables', 'c14_crc32_lemma_byte', 'c14_crc32_lemma_rec', 'c14_crc32_lemma_block8',
                 'c14_crc32_slicing_by_8_state1', 'c14_crc32_slicing_by_8_state0', 'c14_crc32', 'c14_crc32_update',
                 'c14_crc32_bounded_len00_off0', 'c14_crc32_bounded_len01_off7'] +
                ['c14_crc32_lemma_lin%d' % k for k in range(8)] + ['c14_crc32_lemma_slide%d' % k for k in range(8)])
for j in JOBS:
    if j['name'].startswith('c14_crc32_plain_'):
        continue
    j['wip'] = j['name'] not in VALIDATED
    if j['wip'] and not j.get('note'):
        j['note'] = 'not run on the unchanged tree yet / not validated on a broken copy'
