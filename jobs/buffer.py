# C19 / C04 — src/core/buffer.c, src/core/buffer.h, src/core/arena.c under allocation failure
CHECKS = ['--bounds-check', '--pointer-check', '--div-by-zero-check', '--signed-overflow-check',
          '--undefined-shift-check', '--memory-leak-check']
FAIL = ['--malloc-may-fail', '--malloc-fail-null']
TRUST_MEM = ['harness/C19/buffer.c: memcpy/memset models (ranges accessible; one arbitrary ghost byte kept, rest havocked)']

BUF = dict(overlays=['contracts/buffer.ovl'], harness='harness/C19/buffer.c', includes=['.'],
           extra_sources=[], loop_contracts=False, checks=CHECKS, cbmc_flags=FAIL, trusted=TRUST_MEM,
           props=['C19'], wip=True)
EC = ['ensure_capacity', 'next_power_of_two', 'carquet_buffer_destroy']


def buf(name, entry, functions, **kw):
    d = dict(BUF)
    d.update(name='c19_buffer_' + name, entry=entry, functions=functions)
    d.update(kw)
    return d


JOBS = [
    buf('reserve', 'h_reserve', EC + ['carquet_buffer_reserve']),
    buf('init', 'h_init', ['carquet_buffer_init', 'carquet_buffer_destroy']),
    buf('init_capacity', 'h_init_capacity', EC + ['carquet_buffer_init_capacity', 'carquet_buffer_reserve']),
    buf('init_wrap', 'h_init_wrap', EC + ['carquet_buffer_init_wrap', 'carquet_buffer_reserve']),
    buf('init_copy', 'h_init_copy', EC + ['carquet_buffer_init_copy', 'carquet_buffer_init_capacity']),
    buf('destroy', 'h_destroy', ['carquet_buffer_destroy']),
    buf('clear', 'h_clear', ['carquet_buffer_clear']),
    buf('resize', 'h_resize', EC + ['carquet_buffer_resize']),
    buf('shrink_to_fit', 'h_shrink_to_fit', ['carquet_buffer_shrink_to_fit', 'carquet_buffer_destroy']),
    buf('append', 'h_append', EC + ['carquet_buffer_append']),
    buf('append_byte', 'h_append_byte', EC + ['carquet_buffer_append_byte', 'carquet_buffer_append']),
    buf('append_fill', 'h_append_fill', EC + ['carquet_buffer_append_fill']),
    buf('append_u16_le', 'h_append_u16', EC + ['carquet_buffer_append_u16_le', 'carquet_buffer_append', 'carquet_write_u16_le']),
    buf('append_u32_le', 'h_append_u32', EC + ['carquet_buffer_append_u32_le', 'carquet_buffer_append', 'carquet_write_u32_le']),
    buf('append_u64_le', 'h_append_u64', EC + ['carquet_buffer_append_u64_le', 'carquet_buffer_append', 'carquet_write_u64_le']),
    buf('append_f32_le', 'h_append_f32', EC + ['carquet_buffer_append_f32_le', 'carquet_buffer_append', 'carquet_write_f32_le']),
    buf('append_f64_le', 'h_append_f64', EC + ['carquet_buffer_append_f64_le', 'carquet_buffer_append', 'carquet_write_f64_le']),
    buf('advance', 'h_advance', EC + ['carquet_buffer_advance']),
    buf('detach', 'h_detach', ['carquet_buffer_detach', 'carquet_buffer_destroy']),
    buf('swap', 'h_swap', ['carquet_buffer_swap', 'carquet_buffer_destroy']),
    # reader cursor: C04 (never reads outside [data, data+size)) and C19 (same values read)
    buf('reader_init', 'h_reader_init', ['carquet_buffer_reader_init', 'carquet_buffer_reader_init_data',
                                          'carquet_buffer_reader_remaining', 'carquet_buffer_reader_peek'], props=['C04', 'C19']),
    buf('reader_has', 'h_reader_has', ['carquet_buffer_reader_has', 'carquet_buffer_reader_remaining',
                                        'carquet_buffer_reader_peek'], props=['C04']),
    buf('reader_read', 'h_reader_read', ['carquet_buffer_reader_read', 'carquet_buffer_reader_has'], props=['C04', 'C19'],
        note='was a finding (NULL + 0 / memcpy(dest, NULL, 0) on an empty cursor with size 0), fixed upstream by e32ff94; '
             'ok on the fixed tree, fails (memcpy src readable) with the fix reverted'),
    buf('reader_read_nz', 'h_reader_read', ['carquet_buffer_reader_read', 'carquet_buffer_reader_has'], props=['C04', 'C19'],
        defines=['CQV_NO_NULL_ZERO_READ=1'], level='proof',
        note='domain: every cursor state and length except (data == NULL and length 0); see c19_buffer_reader_read'),
    buf('reader_skip', 'h_reader_skip', ['carquet_buffer_reader_skip', 'carquet_buffer_reader_has'], props=['C04']),
] + [
    buf('reader_read_%s' % t, 'h_reader_fixed', ['carquet_buffer_reader_read_%s' % t, 'carquet_buffer_reader_has'],
        defines=['CQV_WHICH=%d' % w], props=['C04', 'C19'])
    for w, t in enumerate(['byte', 'u16_le', 'u32_le', 'u64_le', 'f32_le', 'f64_le'])
]

# ---- enforce jobs of the real contracts in contracts/buffer.ovl (usable by other families via replace) ----
CHECKS_NOLEAK = [c for c in CHECKS if c != '--memory-leak-check']   # is_fresh objects are never freed
for _f in ('reserve', 'append', 'advance'):
    JOBS.append(buf('contract_' + _f, 'h_contract_' + _f, ['carquet_buffer_' + _f, 'ensure_capacity', 'next_power_of_two'],
                    enforce='carquet_buffer_' + _f, checks=CHECKS_NOLEAK))
JOBS.append(buf('contract_use', 'h_contract_use', ['carquet_buffer_append_u32_le', 'carquet_buffer_append_u64_le'],
                replace=['carquet_buffer_append'], checks=CHECKS_NOLEAK,
                note='smoke test that the append contract can be used through replace (two consecutive call sites)'))

# ---- arena.c: block list of length <= 3 (bounded level), sizes / fill levels / alignment symbolic ----
TRUST_ARENA = ['harness/C19/arena.c: memcpy/memset models (ranges accessible; one arbitrary ghost byte kept, rest havocked)']
ARENA = dict(overlays=['contracts/arena.ovl'], harness='harness/C19/arena.c', includes=['.'],
             extra_sources=[], loop_contracts=False, checks=CHECKS, cbmc_flags=FAIL, trusted=TRUST_ARENA,
             props=['C19', 'C04'], wip=True, unwind=6, level='bounded',
             bound='arena block list of length 1..3 on entry (all block sizes, fill levels <= 2^40, current block, alignment symbolic)')
AA = ['carquet_arena_alloc_aligned', 'arena_aligned_offset', 'arena_new_block', 'align_up', 'carquet_arena_destroy']


def arena(name, entry, functions, **kw):
    d = dict(ARENA)
    d.update(name='c19_arena_' + name, entry=entry, functions=functions)
    d.update(kw)
    return d


def split(name, entry, functions, **kw):
    """one job per list length (case split keeps the block pointers concrete: 15 s .. 100 s instead of > 400 s)"""
    out = []
    for n in (1, 2, 3):
        k = dict(kw)
        k['defines'] = list(kw.get('defines', [])) + ['CQV_NBLK=%d' % n]
        k['bound'] = 'arena block list of length exactly %d on entry (all block sizes, fill levels <= 2^40, current block, alignment symbolic)' % n
        if n == 2 and name == 'alloc_aligned_nofail':
            k.setdefault('tier', 'thorough')   # 290 s
        if n == 3:
            k.setdefault('tier', 'thorough')
            if name == 'alloc_aligned_nofail':
                k.update(mem_gb=14, timeout=1200)   # SAT ran out of memory at the default 8 GB
        out.append(arena('%s_n%d' % (name, n), entry, functions, **k))
    return out


TRUST_AA = TRUST_ARENA + ['contracts/arena.ovl: contract of carquet_arena_alloc_aligned (NULL or fresh region of exactly size bytes) used by '
                          'replace; abstraction of what c19_arena_alloc_aligned_n1..n3 prove on the real body, not enforced mechanically']
CALLER = dict(replace=['carquet_arena_alloc_aligned'], level='proof', bound=None, trusted=TRUST_AA, unwind=None)

JOBS += (
    split('alloc_aligned', 'h_alloc_aligned', AA)
    + split('alloc_aligned_nofail', 'h_alloc_aligned', AA, cbmc_flags=['--no-malloc-may-fail'], defines=['CQV_NOFAIL=1'])
    + split('alloc', 'h_alloc', AA + ['carquet_arena_alloc'])
    + [
        arena('calloc', 'h_calloc', ['carquet_arena_calloc', 'carquet_arena_alloc'], timeout=300, backend=['sat', 'cadical'],
              **dict(CALLER, note='domain: every (count, size) whose true product is <= 2^40; wrapping products are c19_arena_calloc_overflow*')),
        arena('calloc_overflow_pow2', 'h_calloc_overflow', ['carquet_arena_calloc'], timeout=300, backend=['sat', 'cadical'], defines=['CQV_CALLOC_POW2=1'],
              **dict(CALLER, level='bounded', bound='count a power of two 2^1..2^63, every element size that makes the product wrap')),
        arena('calloc_overflow', 'h_calloc_overflow', ['carquet_arena_calloc'], timeout=300, tier='thorough', backend=['sat', 'cadical'],
              note='UNDECIDED: refusal of EVERY wrapping product needs 64-bit mul/div reasoning; SAT (minisat, cadical) times out, z3/cvc5 abort on the '
                   'is_fresh-instrumented program (replace of alloc_aligned). Not a finding.', **CALLER),
        arena('memdup', 'h_memdup', ['carquet_arena_memdup', 'carquet_arena_alloc'], **CALLER),
        arena('strndup', 'h_strndup', ['carquet_arena_strndup'], loop_contracts=True, min_loop_obligations=1, **CALLER),
        arena('strdup', 'h_strdup', ['carquet_arena_strdup', 'carquet_arena_strndup'], loop_contracts=True, min_loop_obligations=1,
              **dict(CALLER, trusted=TRUST_AA + ['harness/C19/arena.c: strlen model (requires a NUL inside the object, returns the index of some NUL not after the promised one)'])),
        arena('init', 'h_init_size', ['carquet_arena_init', 'carquet_arena_init_size', 'arena_new_block', 'align_up', 'carquet_arena_destroy'],
              level='proof', bound=None),
        arena('destroy', 'h_destroy', ['carquet_arena_destroy'],
              bound='arena block list of length 1..4 (all block sizes, fill levels, current block symbolic)'),
        arena('reset', 'h_reset', ['carquet_arena_reset', 'carquet_arena_destroy']),
        arena('save_restore', 'h_save_restore', ['carquet_arena_save', 'carquet_arena_restore', 'carquet_arena_destroy'],
              bound='arena block list of length 1..3 at the save, at most one block appended before the restore'),
    ]
)

# ---- status: ok on the unchanged tree AND seen failing (VIOLATION) on a deliberately broken copy ----
VALIDATED = set('c19_buffer_' + x for x in (
    'reserve init init_capacity init_wrap init_copy destroy clear resize shrink_to_fit append append_byte append_fill '
    'append_u16_le append_u32_le append_u64_le append_f32_le append_f64_le advance detach swap '
    'reader_init reader_has reader_read reader_read_nz reader_skip reader_read_byte reader_read_u16_le reader_read_u32_le '
    'reader_read_u64_le reader_read_f32_le reader_read_f64_le '
    'contract_reserve contract_append contract_advance contract_use').split()) | set('c19_arena_' + x for x in (
    'alloc_aligned_n1 alloc_aligned_n2 alloc_aligned_n3 alloc_n1 alloc_n2 alloc_n3 alloc_aligned_nofail_n1 alloc_aligned_nofail_n2 '
    'calloc calloc_overflow_pow2 memdup strndup strdup init destroy reset save_restore').split())
NOTES = {
    'c19_arena_alloc_aligned_nofail_n3': 'UNDECIDED: SAT out of memory at 8 GB (238 s), timeout at 14 GB (700 s). n1 (30 s) and n2 (290 s) are ok and validated. Not a finding.',
}
for _j in JOBS:
    if _j['name'] in VALIDATED:
        _j['wip'] = False
    if _j['name'] in NOTES:
        _j['note'] = NOTES[_j['name']]
    if _j['name'].startswith('c19_arena_') and _j['name'][-3:] in ('_n2', '_n3') and _j['name'] not in VALIDATED:
        _j.setdefault('note', 'not run yet (same harness as the _n1 job; est. 60 s for n2, > 100 s for n3)')
