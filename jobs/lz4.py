# LZ4 block codec (src/compression/lz4.c): C08 decoder safety, C09 bounds, C10 format
L8 = dict(overlays=['contracts/lz4.ovl'], harness='harness/C08/lz4.c')
FZ_D = dict(kind='fuzz', harness='replay/fz/lz4_decompress.c', sources=['src/compression/lz4.c'],
            max_len=48, secs=20)

JOBS = [
    dict(name='c08_lz4_decompress', prop='C08', entry='h_lz4_decompress',
         enforce='carquet_lz4_decompress', min_loop_obligations=6, est_s=60,
         replayer=FZ_D, wip=True, **L8),
]
