# LZ4 block codec (src/compression/lz4.c): C08 decoder safety, C09 bounds, C10 format
OVL = ['contracts/lz4.ovl']
# lz4_count's inner byte scan (at most 8 steps, a != b) is unwound, never given a contract; every job that
# applies the overlay's loop contracts must therefore carry this unwindset
UW = ['lz4_count.0:9']
LEMMAS = ['cqv_lemma_' + x for x in ['space', 'ext', 'inv', 'last', 'post']]
L8 = dict(overlays=OVL, harness='harness/C08/lz4.c', extra_sources=[],
          trusted=['harness/C08/lz4.c: memcpy as contract (ranges accessible, whole destination object havocked)',
                   'specs/lz4_spec.h: token/offset field definitions read from the LZ4 block format document'])
L9 = dict(overlays=OVL, harness='harness/C09/lz4.c', extra_sources=[],
          trusted=['harness/C09/lz4.c: memcpy/memset as contracts (ranges accessible, whole destination object havocked; '
                   'copies <= CQV_MEMCPY_EXACT bytes exact)'])
# compressor slices: the pure arithmetic is delegated to ghost lemma functions whose contracts replace their calls
L9S = dict(L9, trusted=L9['trusted'] + [
    'harness/C09/lz4.c: contracts of the arithmetic lemmas cqv_lemma_space/ext/inv/last/post replace their calls '
    '(requires checked at each call site); each contract is proved for all arguments by the job c09_lz4_lemma_<name> '
    '(space, ext, inv, last, post: all proved), which uses the same REQ/ENS macros'])
L10 = dict(overlays=OVL, harness='harness/C10/lz4.c')
FZ_D = dict(kind='fuzz', harness='replay/fz/lz4_decompress.c', sources=['src/compression/lz4.c'],
            max_len=48, secs=20)
FZ_C = dict(kind='fuzz', harness='replay/fz/lz4_compress.c', sources=['src/compression/lz4.c'],
            max_len=600, secs=30)

JOBS = [
    # C08: decoder on arbitrary bytes / sizes / capacity
    dict(name='c08_lz4_decompress', props=['C08', 'C09', 'C10'], entry='h_lz4_decompress',
         enforce='carquet_lz4_decompress', unwindset=UW, min_loop_obligations=6, est_s=200, timeout=900, mem_gb=14, drift_unwind=3,
         replayer=FZ_D, wip=False, **L8),
    # C09: bound arithmetic (loop free)
    dict(name='c09_lz4_compress_bound', prop='C09', entry='h_lz4_compress_bound',
         enforce='carquet_lz4_compress_bound', loop_contracts=False, backend=['z3', 'sat'], wip=False, **L9),
    # C09: match length counter used by the compressor (inner byte scan unwound: at most 8 steps)
    dict(name='c09_lz4_count', prop='C09', entry='h_lz4_count', enforce='lz4_count',
         unwindset=UW + ['memcpy.0:17'], defines=['CQV_MEMCPY_EXACT=16'], min_loop_obligations=2,
         # tool limitation (legacy loop-contract instrumentation): in `uint64_t a, b;` only the first declarator
         # reaches the write set that the inlined memcpy model is checked against, so the 8 byte stores of
         # memcpy(&b, match, 8) into lz4_count's OWN local are reported "not assignable".  Reported as a
         # supporting fact, not counted.
         soft=[r'^Check that \(\(uint8_t \*\)dst\)\[\(signed long int\)i\] is assignable'],
         est_s=120, wip=False, **L9),
    # C09: pure arithmetic lemmas used (as replaced contracts) by the compressor slices; all arguments, SMT
] + [
    dict(name='c09_lz4_lemma_' + nm, prop='C09', entry='h_lemma_' + nm, loop_contracts=False,
         backend=(['z3', 'cvc5', 'cadical'] if nm == 'ext' else 'cadical'), timeout=3600, wip=False,
         functions=[], tier='thorough', est_s=est,
         note='' if nm == 'ext' else 'explicit chain of asserted-then-assumed steps (quotient facts, pairwise distributivity of 255*, '
              'sums of two inequalities, cancellation; sums taken apart in written order); REQ/ENS macros shared with the contract',
         **L9)
    for nm, est in [('space', 1450), ('ext', 120), ('inv', 720), ('last', 1070), ('post', 990)]
] + [
    # C09 + C10: compressor, one contract / one set of loop invariants, obligations split over slices (select=):
    #   every write inside dst, result <= bound, a bound-sized buffer always succeeds (the four internal space
    #   checks are unreachable), end-of-block rules, and the emitted token / length bytes / offset parse back.
] + [
    dict(name='c09_lz4_compress_' + nm, props=['C09', 'C10'], entry='h_lz4_compress', enforce='carquet_lz4_compress',
         replace=['lz4_count'] + LEMMAS, unwindset=UW, min_loop_obligations=mlo,
         select=sel, timeout=5400, mem_gb=12, backend='cadical', cbmc_flags=['--slice-formula'],
         replayer=FZ_C, wip=False, tier='thorough', est_s=est,
         note='uses the arithmetic lemma contracts listed in trusted; all five are proved by c09_lz4_lemma_*',
         **L9S)
    for nm, sel, mlo, est in [
        ('assigns', r'\.assigns\.', 0, 530),
        ('deref_kind', r'\.pointer_dereference\.(?!.*outside object bounds)', 0, 230),
        ('deref_bounds', r'\.pointer_dereference\..*outside object bounds|\.array_bounds\.', 0, 850),
        ('invariants', r'^carquet_lz4_compress\.\d+ ', 4, 570),
        ('asserts', r'\.assertion\.', 0, 1320),
        ('post', r'\.postcondition\.', 0, 1340),
        ('rest', r'^(?!.*(\.assigns\.|\.pointer_dereference\.|\.array_bounds\.|\.assertion\.|\.postcondition\.))(?!carquet_lz4_compress\.\d+ )', 0, 3000),
    ]
] + [
    # C10: parse-back of what the compressor stores (token nibbles, length-extension bytes, offset bytes), content
    # level.  Variant of the same job with -DCQV_LZ4_PARSEBACK (content clauses in the inner-loop invariants, one
    # arbitrary destination byte preserved across the memcpy model); its obligations are sliced like the base variant.
] + [
    dict(name='c10_lz4_compress_parseback_' + nm, props=['C10'], entry='h_lz4_compress', enforce='carquet_lz4_compress',
         replace=['lz4_count'] + LEMMAS, unwindset=UW, min_loop_obligations=mlo, defines=['CQV_LZ4_PARSEBACK=1'],
         select=sel, timeout=5400, mem_gb=12, backend='cadical', cbmc_flags=['--slice-formula'],
         replayer=FZ_C, wip=True, tier='thorough',
         note='UNDECIDED (resources): cbmc rc=6 (solver error / memory, 12 GB) after 375 s for the asserts and invariants slices; '
              'the format rule "last length byte < 255, 255*k + last == length - 15" is meanwhile enforced by the requires of '
              'cqv_lemma_ext / cqv_lemma_inv in the base slices (seeded `rem > 255` is caught there).',
         **L9S)
    for nm, sel, mlo in [
        ('asserts', r'\.assertion\.', 0),
        ('invariants', r'^carquet_lz4_compress\.\d+ ', 4),
        ('other', r'^(?!.*\.assertion\.)(?!carquet_lz4_compress\.\d+ )', 0),
    ]
] + [
    # C10 decoder direction, bounded by complete unwinding on small blocks (no loop contracts applied)
    dict(name='c10_lz4_decoder_accepts_valid', prop='C10', entry='h_lz4_decompress_accepts_every_valid',
         loop_contracts=False, unwind=9, defines=['CQV_N=4', 'CQV_CAP=8'], level='bounded',
         bound='compressed block <= 4 bytes (all byte values; only literal-only blocks are valid at this size), destination capacity 8',
         note='weak bound kept on purpose: the smallest valid block with a match has 10 bytes; complete unwinding of decoder + '
              'spec validator at 6..10 bytes (unwind 18..45) did not finish symbolic execution in 15 min.',
         functions=['carquet_lz4_decompress'], trusted=['specs/lz4_spec.h: block validity read from the LZ4 block format document'],
         timeout=900, est_s=100, wip=False, **L10),
    dict(name='c10_lz4_decoder_rejects_invalid', prop='C10', entry='h_lz4_decompress_accepts_only_valid',
         loop_contracts=False, unwind=9, defines=['CQV_N=4', 'CQV_CAP=8'], level='bounded',
         bound='compressed block <= 4 bytes (all byte values), destination capacity 8',
         functions=['carquet_lz4_decompress'], trusted=['specs/lz4_spec.h: block validity read from the LZ4 block format document'],
         timeout=900, est_s=90, wip=False,
         note='was a FINDING (zero-length input, block ending right after a match, < 5 final literals after a match were '
              'accepted); repaired upstream in e5ddaab; ok on the fixed tree, VIOLATION again with e5ddaab reverted.',
         **L10),
]
