# C14 — error detection lemmas on the bit-serial CRC-32 definition (see harness/C14/burst.c)
B = dict(prop='C14', harness='harness/C14/burst.c', extra_sources=[], loop_contracts=False, unwind=33,
         functions=['spec_crc32_byte (specification side; linked to carquet_crc32 by the c14_crc32 jobs)'],
         trusted=['paper induction over message bits combining L1-L3 (harness/C14/burst.c header)'])
JOBS = [
    dict(name='c14_burst_L1_linear', entry='h_burst_L1', **B),
    dict(name='c14_burst_L2_zero', entry='h_burst_L2', **B),
    dict(name='c14_burst_L3_window', entry='h_burst_L3', timeout=900, **B),
]
