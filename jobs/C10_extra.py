# quick lemma for snappy_emit_copy below the splitting loop (see harness/C10/snappy_copy_small.c)
JOBS = [
    dict(name='c10_snappy_emit_copy_small', props=['C10', 'C09'], harness='harness/C10/snappy_copy_small.c',
         entry='h_c10_emit_copy_small', loop_contracts=False, unwind=2, includes=['.'],
         functions=['snappy_emit_copy'], level='bounded', bound='match length 4..67 (below the 64-byte splitting loop), all offsets 1..65535',
         trusted=['specs/snappy_spec.h (reading of format_description.txt)']),
]
