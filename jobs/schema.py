# C17 schema builder / accessors / file-schema traversal; C04 index checks; C19 allocation failure
SB = dict(overlays=['contracts/schema.ovl'], harness='harness/C17/schema_builder.c',
          extra_sources=['stubs/mem_stubs.c', 'stubs/schema_stubs.c'], includes=['.'],
          trusted=['stubs/schema_stubs.c: carquet_arena_init_size/destroy/strdup/calloc (NULL or fresh object), carquet_error_set, strcmp (uninterpreted)',
                   'schema capacity < 2^30 elements (see c17_schema_capacity_overflow for the full range)'])
OOM = ['--malloc-may-fail', '--malloc-fail-null']
LEAK = ['--bounds-check', '--pointer-check', '--div-by-zero-check', '--signed-overflow-check', '--undefined-shift-check', '--memory-leak-check']

JOBS = [
    dict(name='c17_add_column_state', props=['C17'], entry='h_add_column', defines=['CQV_PART=0'],
         functions=['carquet_schema_add_column', 'schema_ensure_capacity', 'carquet_schema_free'],
         min_loop_obligations=1, wip=True, **SB),
]
