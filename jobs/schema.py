# C17 schema builder / accessors / file-schema traversal; C04 index checks; C19 allocation failure
SB = dict(overlays=['contracts/schema.ovl'], harness='harness/C17/schema_builder.c',
          extra_sources=['stubs/schema_stubs.c'], includes=['.'],
          trusted=['stubs/schema_stubs.c: carquet_arena_init_size/destroy/strdup/calloc (NULL or fresh object), carquet_error_set, strcmp (uninterpreted), realloc (new object, observed windows kept)',
                   'case split num_elements < capacity (growth path schema_ensure_capacity/realloc not covered: formula exceeds 8 GB)', 'schema capacity < 2^30 elements'])
OOM = ['--malloc-may-fail', '--malloc-fail-null']
LEAK = ['--bounds-check', '--pointer-check', '--div-by-zero-check', '--signed-overflow-check', '--undefined-shift-check', '--memory-leak-check']

RP_ADD = dict(kind='direct', harness='replay/direct/schema_add_column.c', sources=['src/core/arena.c', 'src/core/error.c'], vars={'rep_i': 'rep_i', 'oom': 'oom'})
AC = dict(replayer=RP_ADD, entry='h_add_column', unwind=6, functions=['carquet_schema_add_column', 'carquet_schema_free'], **SB)
NOGROW = 'case split: num_elements < capacity (no reallocation); the growth case is c17_ensure_capacity'
JOBS = [
    dict(name='c17_add_column_state', props=['C17'], defines=['CQV_PART=0', 'CQV_SCHEMA_MEMSET', 'CQV_NOGROW'], note=NOGROW, wip=False, est_s=40, **AC),
    dict(name='c17_add_column_def_level', props=['C17'], defines=['CQV_PART=1', 'CQV_SCHEMA_MEMSET', 'CQV_NOGROW'], wip=True,
         note='FINDING: REPEATED leaf gets max_def 0 (must be 1)', **AC),
    dict(name='c19_add_column_name_copy', props=['C19', 'C17'], defines=['CQV_PART=2', 'CQV_SCHEMA_MEMSET', 'CQV_NOGROW'], wip=True,
         note='FINDING: carquet_arena_strdup result not checked: OK returned with name == NULL', **AC),
]

FR = dict(overlays=['contracts/file_reader_schema.ovl'], harness='harness/C17/file_schema.c',
          extra_sources=['stubs/mem_stubs.c', 'stubs/schema_stubs.c'], includes=['.'],
          trusted=['stubs/schema_stubs.c: carquet_arena_calloc (NULL or fresh zeroed object of count*size bytes), carquet_error_set'])
JOBS += [
    dict(name='c17_file_schema_spec_n4', props=['C17', 'C04'], entry='h_file_schema_spec', level='bounded', loop_contracts=False, tier='thorough',
         note='UNDECIDED: times out (400 s) even at 4 elements; recursion x loop unwinding too large',
         bound='element lists with <= 4 elements, num_children in 0..3, all repetition labels', defines=['CQV_N=4', 'CQV_NC=3'], unwind=6,
         functions=['build_schema', 'compute_levels', 'traverse_schema_recursive', 'count_leaves'], wip=True, timeout=400, **FR),
    dict(name='c04_file_schema_work_n4', props=['C04'], entry='h_file_schema_work', level='bounded', loop_contracts=False, tier='thorough',
         bound='element lists with <= 4 elements, num_children in 0..3', defines=['CQV_N=4', 'CQV_NC=3'], unwind=6,
         functions=['build_schema', 'compute_levels', 'traverse_schema_recursive'], wip=True,
         note='UNDECIDED in CBMC (timeout); FINDING shown natively (/tmp/schema/trav.c): traverse loops num_children times after the element list is exhausted', **FR),
]
