# C17 schema builder / accessors / file-schema traversal; C04 index checks; C19 allocation failure
SB = dict(overlays=['contracts/schema.ovl'], harness='harness/C17/schema_builder.c',
          extra_sources=['stubs/schema_stubs.c'], includes=['.'],
          trusted=['stubs/schema_stubs.c: carquet_arena_init_size/destroy/strdup/calloc (NULL or fresh object), carquet_error_set, strcmp (uninterpreted), realloc (new object, observed windows kept)',
                   'case split num_elements < capacity (growth path schema_ensure_capacity/realloc not covered: formula exceeds 8 GB)', 'schema capacity < 2^30 elements'])
OOM = ['--malloc-may-fail', '--malloc-fail-null']
LEAK = ['--bounds-check', '--pointer-check', '--div-by-zero-check', '--signed-overflow-check', '--undefined-shift-check', '--memory-leak-check']

RP_ADD = dict(kind='direct', harness='replay/direct/schema_add_column.c', sources=['src/core/arena.c', 'src/core/error.c'], vars={'rep_i': 'rep_i', 'oom': 'oom'})
AC = dict(replayer=RP_ADD, entry='h_add_column', unwind=6, functions=['carquet_schema_add_column', 'carquet_schema_free'], **SB)
NOGROW = 'case split: num_elements < capacity (no reallocation); the growth path of schema_ensure_capacity (4 x realloc + memset of symbolic size) is UNDECIDED for arbitrary capacity (every formulation exceeded 8 GB); bounded: c17_ensure_capacity_grow_cap{1,2,3}_req*, c17_add_column_grow_cap{1,2,3}'
JOBS = [
    dict(name='c17_add_column_state', props=['C17'], defines=['CQV_PART=0', 'CQV_SCHEMA_MEMSET', 'CQV_NOGROW'], note=NOGROW, wip=False, est_s=40, **AC),
    dict(name='c17_add_column_def_level', props=['C17'], defines=['CQV_PART=1', 'CQV_SCHEMA_MEMSET', 'CQV_NOGROW'], wip=False,
         note=NOGROW + '; found: REPEATED leaf got max_def 0 (fixed by f26ee88)', **AC),
    dict(name='c19_add_column_name_copy', props=['C19', 'C17'], defines=['CQV_PART=2', 'CQV_SCHEMA_MEMSET', 'CQV_NOGROW'], wip=False,
         note=NOGROW + '; found: carquet_arena_strdup result not checked (fixed by 1c84112); realloc failure inside schema_ensure_capacity is NOT covered', **AC),
]

FR = dict(overlays=['contracts/file_reader_schema.ovl'], harness='harness/C17/file_schema.c',
          extra_sources=['stubs/mem_stubs.c', 'stubs/schema_stubs.c'], includes=['.'],
          trusted=['stubs/schema_stubs.c: carquet_arena_calloc (NULL or fresh zeroed object of count*size bytes), carquet_error_set'])
FR['trusted'] = FR['trusted'] + ['ghost cqv_L (suffix leaf count): L[n]==0, L[i]>=0, L[i]==L[i+1]+(num_children[i]==0) assumed at the instances i used by each harness']
TW = 'traverse_schema_recursive__rec'
JOBS += [
    dict(name='c17_traverse_leaf', props=['C17'], entry='h_traverse_leaf', replace=[TW], functions=['traverse_schema_recursive'], wip=False, **FR),
    dict(name='c04_count_leaves', props=['C04'], entry='h_count_leaves', enforce='count_leaves', replace=[TW], min_loop_obligations=1, wip=False, **FR),
    dict(name='c04_build_schema', props=['C04', 'C17', 'C19'], entry='h_build_schema', replace=['traverse_schema_recursive', 'count_leaves'],
         functions=['build_schema', 'compute_levels'], min_loop_obligations=1, wip=False,
         trusted=FR['trusted'] + ['count_leaves result == cqv_L[0] (number of elements with num_children == 0): assumed, the loop contract of count_leaves proves range/safety/termination only'],
         **{k: v for k, v in FR.items() if k != 'trusted'}),
    dict(name='c04_traverse', props=['C04', 'C17'], entry='h_traverse', enforce='traverse_schema_recursive', replace=[TW],
         min_loop_obligations=1, wip=False, **FR),
]
# overlay-free bounded whole-tree stand-in (cannot drift): every well-formed element list with <= N elements, any labels (the root's
# label included), real recursion: build_schema == textbook definition (specs/schema_spec.h)
for _n, _tier, _est in ((2, 'quick', 30),):   # n = 3: cbmc does not finish in 900 s (recursion x loops), as recorded below
    JOBS.append(dict(name='c17_file_schema_spec_n%d' % _n, props=['C17'], entry='h_file_schema_spec', harness='harness/C17/file_schema.c', overlays=[],
                     loop_contracts=False, unwind=_n + 2, defines=['CQV_REAL_REC=1', 'CQV_N=%d' % _n], level='bounded', tier=_tier, est_s=_est, timeout=900,
                     bound='element lists with <= %d elements (root included), every shape and every repetition label' % _n,
                     extra_sources=FR['extra_sources'], includes=['.'], trusted=[FR['trusted'][0]], backend=['cadical', 'sat'],
                     functions=['build_schema', 'compute_levels', 'traverse_schema_recursive', 'count_leaves'], wip=False))
# c17_file_schema_spec (whole-tree bounded equality with specs/schema_spec.h, harness h_file_schema_spec under CQV_REAL_REC) was DROPPED:
# recursion x loop unwinding does not close (n<=4: timeout 280 s; n<=3: 180 s then out of memory).  The equality is covered case-wise by
# c17_traverse_leaf (leaf levels), c04_traverse (children receive level + contribution, progress, depth) and c04_build_schema (root children 0/0).
AG = dict(entry='h_add_group', unwind=6, functions=['carquet_schema_add_group', 'carquet_schema_free'], **SB)
JOBS += [
    dict(name='c17_add_group_state', props=['C17'], defines=['CQV_PART=0', 'CQV_SCHEMA_MEMSET', 'CQV_NOGROW'], note=NOGROW, wip=False, **AG),
    dict(name='c19_add_group_name_copy', props=['C19'], defines=['CQV_PART=2', 'CQV_SCHEMA_MEMSET', 'CQV_NOGROW'], wip=False,
         note='FINDING (same class as 1c84112, not yet fixed): carquet_schema_add_group ignores a failed carquet_arena_strdup', **AG),
    dict(name='c17_schema_accessors', props=['C17', 'C04'], entry='h_accessors', unwind=6, defines=['CQV_SCHEMA_MEMSET', 'CQV_NOGROW'], wip=False,
         functions=['carquet_schema_get_element', 'carquet_schema_num_columns', 'carquet_schema_num_elements', 'carquet_schema_node_name', 'carquet_schema_node_is_leaf',
                    'carquet_schema_node_physical_type', 'carquet_schema_node_logical_type', 'carquet_schema_node_repetition', 'carquet_schema_node_type_length',
                    'carquet_schema_node_max_def_level', 'carquet_schema_node_max_rep_level'], **SB),
]
JOBS += [
    dict(name='c17_find_column_b3', props=['C17', 'C02'], entry='h_find_column', harness='harness/C17/schema_find.c', overlays=[], level='bounded',
         bound='<= 3 leaf columns, <= 4 elements, names of length <= 4 (NUL within 5 bytes), all byte values', unwind=6,
         defines=['CQV_STR_EXACT=5'], extra_sources=['stubs/schema_stubs.c'], includes=['.'], functions=['carquet_schema_find_column'],
         trusted=['stubs/schema_stubs.c: strcmp/strncmp/strlen exact models for strings with NUL within 5 bytes'], wip=False),
]
GR = dict(harness='harness/C17/schema_grow.c', overlays=[], level='bounded', unwind=8, includes=['.'],
          extra_sources=['stubs/schema_stubs.c'], cbmc_flags=OOM, checks=LEAK,
          trusted=['CBMC realloc/calloc/malloc/free models (--malloc-may-fail --malloc-fail-null), stubs/schema_stubs.c: arena stubs, memset (typed zero / havoc)'])
for cap in (1, 2, 3):
    for req in (cap + 1, 2 * cap + 1):
        JOBS.append(dict(name='c17_ensure_capacity_grow_cap%d_req%d' % (cap, req), props=['C17', 'C19'], entry='h_grow',
                         functions=['schema_ensure_capacity', 'carquet_schema_free'],
                         defines=['CQV_CAP=%d' % cap, 'CQV_REQ=%d' % req, 'CQV_LIBC_REALLOC', 'CQV_SCHEMA_MEMSET'], wip=False,
                         bound='old capacity == %d (arrays of exactly that many entries, arbitrary contents), required == %d; every allocation may fail' % (cap, req), **GR))
    JOBS.append(dict(name='c17_add_column_grow_cap%d' % cap, props=['C17', 'C19'], entry='h_add_column_grow',
                     functions=['carquet_schema_add_column', 'schema_ensure_capacity', 'carquet_schema_free'],
                     defines=['CQV_CAP=%d' % cap, 'CQV_LIBC_REALLOC', 'CQV_SCHEMA_MEMSET'], wip=False,
                     bound='num_elements == capacity == %d; every allocation may fail' % cap, **GR))
