# C18 / C04 - file writer close/abort/flush under a failing sink; footer validation of the open paths
W = dict(overlays=['contracts/file_writer.ovl'], harness='harness/C18/writer.c', prop='C18', includes=['.'],
         trusted=['stubs/stdio_stubs.c: failing-sink stdio model (fwrite short counts, fflush/fclose EOF, fopen/remove failure)',
                  'harness/C18/writer.c: assumed contracts for row_group_writer.c, arena.c, buffer.c, parquet_write_file_metadata; '
                  'writer representation invariant (capacities < 2^30, counters in [0,2^61])'])
LEAK = ['--bounds-check', '--pointer-check', '--div-by-zero-check', '--signed-overflow-check',
        '--undefined-shift-check', '--memory-leak-check']
BND = dict(defines=['CQV_NCOL_MAX=2', 'CQV_NRG_MAX=2'], unwind=4, loop_contracts=False, level='bounded',
           bound='num_columns <= 2, num_row_groups <= 2 (capacities symbolic); all loops fully unwound')

ALL_SRC = [
    'src/compression/gzip.c',
    'src/compression/lz4.c',
    'src/compression/snappy.c',
    'src/compression/zstd.c',
    'src/core/arena.c',
    'src/core/bitpack.c',
    'src/core/buffer.c',
    'src/core/endian.c',
    'src/core/error.c',
    'src/encoding/byte_stream_split.c',
    'src/encoding/delta.c',
    'src/encoding/delta_length.c',
    'src/encoding/delta_strings.c',
    'src/encoding/dictionary.c',
    'src/encoding/plain.c',
    'src/encoding/rle.c',
    'src/metadata/bloom_filter.c',
    'src/metadata/page_index.c',
    'src/metadata/schema.c',
    'src/metadata/statistics.c',
    'src/reader/batch_reader.c',
    'src/reader/column_reader.c',
    'src/reader/file_reader.c',
    'src/reader/mmap_reader.c',
    'src/reader/page_reader.c',
    'src/reader/row_group_reader.c',
    'src/reader/statistics.c',
    'src/simd/detect.c',
    'src/simd/dispatch.c',
    'src/simd/x86/avx2_ops.c',
    'src/simd/x86/avx512_ops.c',
    'src/simd/x86/sse_ops.c',
    'src/thrift/parquet_types.c',
    'src/thrift/thrift_decode.c',
    'src/thrift/thrift_encode.c',
    'src/util/crc32.c',
    'src/util/xxhash.c',
    'src/writer/column_writer.c',
    'src/writer/file_writer.c',
    'src/writer/page_writer.c',
    'src/writer/row_group_writer.c',
]
RP_CLOSE = dict(kind='direct', harness='replay/direct/writer_close.c', sources=ALL_SRC, vars={})

CRE = dict(defines=['CQV_NLEAF_MAX=2', 'CQV_NCOL_MAX=2', 'CQV_GENERIC_REALLOC=1'], unwind=4, loop_contracts=False,
           level='bounded', bound='schema with <= 2 leaves; all loops fully unwound')
F_DEF = ['CQV_EXACT_MEMCMP=8', 'CQV_MEMCPY_EXACT=16']
F = dict(harness='harness/C04/footer.c', props=['C04', 'C18'], includes=['.'], extra_sources=[], loop_contracts=False,
         unwind=17, checks=LEAK,
         trusted=['stubs/stdio_stubs.c: stdio source model (fseek/ftell/fread may fail or come up short, never deliver bytes '
                  'outside the file), vsnprintf terminates within its capacity, exact 4-byte memcmp',
                  'harness/C04/footer.c + contracts/footer.ovl: assumed contracts for parquet_parse_file_metadata, '
                  'build_schema, arena'])

JOBS = [
    # ---- C18: writer under a failing sink ("harness is the contract"; stdio = stubs/stdio_stubs.c) ----
    dict(name='c18_write_magic', entry='h_write_magic', loop_contracts=False, functions=['write_magic'], est_s=2, **W),
    dict(name='c18_ensure_header_written', entry='h_ensure_header', loop_contracts=False,
         functions=['ensure_header_written', 'write_magic'], est_s=3, **W),
    # flush_row_group's column loop: a loop contract (contracts/file_writer.ovl) makes (&columns[i].metadata)->x a
    # byte update at a symbolic offset into an array of structs and the SAT back end runs out of memory (8 GB)
    # => the loop is unwound for <= 2 columns instead; everything else (sizes, counters, capacities) is symbolic.
    dict(name='c18_flush_row_group_b', entry='h_flush_row_group', functions=['flush_row_group'], est_s=40, **BND, **W),
    dict(name='c19_ensure_row_group_b', entry='h_ensure_row_group', functions=['ensure_row_group'], est_s=30,
         **BND, **dict(W, prop='C19')),
    dict(name='c18_new_row_group_b', entry='h_new_row_group',
         functions=['carquet_writer_new_row_group', 'ensure_header_written', 'flush_row_group'], est_s=45, **BND, **W),
    # found: carquet_writer_close ignored fflush()/fclose() results (returned OK on /dev/full); repaired upstream in
    # ab461a2.  Validated on scratch copies: fix reverted => VIOLATION (native: /dev/full); `goto cleanup` removed after
    # the failed footer-length fwrite => VIOLATION (native: one-shot failing fopencookie sink, write call #3).
    dict(name='c18_close_io_b', entry='h_close_io', functions=['carquet_writer_close'], replayer=RP_CLOSE, est_s=100,
         **BND, **W),
    dict(name='c18_close_resources_b', entry='h_close_resources', functions=['carquet_writer_close', 'build_file_metadata'],
         checks=LEAK, est_s=100, **BND, **W),
    dict(name='c18_abort_b', entry='h_abort', functions=['carquet_writer_abort'], checks=LEAK, est_s=4, **BND, **W),
    # ---- carquet_writer_create / carquet_writer_create_file failure paths (fopen, strdup, calloc, realloc, arena fail) ----
    dict(name='c18_create_b', entry='h_create', functions=['carquet_writer_create', 'add_column_internal', 'carquet_writer_abort'],
         checks=LEAK, cbmc_flags=['--malloc-may-fail', '--malloc-fail-null'], est_s=120, tier='quick', **CRE, **dict(W, props=['C18', 'C19'])),   # C19: every allocation of writer creation may fail; no leak, no double free
    dict(name='c18_create_file_b', entry='h_create_file',
         functions=['carquet_writer_create_file', 'add_column_internal', 'carquet_writer_abort'],
         checks=LEAK, cbmc_flags=['--malloc-may-fail', '--malloc-fail-null'], est_s=120, tier='thorough', **CRE, **dict(W, props=['C18', 'C19'])),
    dict(name='c18_create_no_file_left_b', entry='h_create', functions=['carquet_writer_create'], wip=True, tier='thorough',
         checks=LEAK, cbmc_flags=['--malloc-may-fail', '--malloc-fail-null'],
         note='OBSERVATION, not a property-level obligation: a failed carquet_writer_create that had already opened the file '
              'should remove it; expected to fail on the strdup(path) failure path (fclose without remove).',
         **dict(CRE, defines=CRE['defines'] + ['CQV_CREATE_STRICT=1']), **W),
    # ---- footer validation of the three open paths (C04 + C18), proof level, loop-free ----
    dict(name='c04_read_footer', entry='h_read_footer', functions=['read_footer'], replace=['build_schema'],
         overlays=['contracts/footer.ovl'], defines=F_DEF + ['CQV_SRC=1'], est_s=15, **F),
    dict(name='c04_read_footer_mmap', entry='h_read_footer_mmap', functions=['read_footer_mmap'], replace=['build_schema'],
         overlays=['contracts/footer.ovl'], defines=F_DEF + ['CQV_SRC=1'], est_s=10, **F),
    dict(name='c04_open_buffer', entry='h_open_buffer', functions=['carquet_reader_open_buffer'],
         defines=F_DEF + ['CQV_SRC=2'], cbmc_flags=['--malloc-may-fail', '--malloc-fail-null'], est_s=10, **F),
]
