# C18 / C04 - file writer close/abort/flush under a failing sink; footer validation of the open paths
W = dict(overlays=['contracts/file_writer.ovl'], harness='harness/C18/writer.c', prop='C18', includes=['.'],
         trusted=['stubs/stdio_stubs.c: failing-sink stdio model (fwrite short counts, fflush/fclose EOF, fopen/remove failure)',
                  'harness/C18/writer.c: assumed contracts for row_group_writer.c, arena.c, buffer.c, parquet_write_file_metadata; '
                  'writer representation invariant (capacities < 2^30, counters in [0,2^61])'])
LEAK = ['--bounds-check', '--pointer-check', '--div-by-zero-check', '--signed-overflow-check',
        '--undefined-shift-check', '--memory-leak-check']
BND = dict(defines=['CQV_NCOL_MAX=2', 'CQV_NRG_MAX=2'], unwind=4, loop_contracts=False, level='bounded',
           bound='num_columns <= 2, num_row_groups <= 2 (capacities symbolic); all loops fully unwound')

JOBS = [
    dict(name='c18_write_magic', entry='h_write_magic', loop_contracts=False, functions=['write_magic'], wip=True, **W),
    dict(name='c18_ensure_header_written', entry='h_ensure_header', loop_contracts=False,
         functions=['ensure_header_written', 'write_magic'], wip=True, **W),
    dict(name='c18_flush_row_group_b', entry='h_flush_row_group', functions=['flush_row_group'], wip=True, **BND, **W),
    dict(name='c18_new_row_group_b', entry='h_new_row_group',
         functions=['carquet_writer_new_row_group', 'ensure_header_written', 'flush_row_group'], wip=True, **BND, **W),
    dict(name='c18_close_io_b', entry='h_close_io', functions=['carquet_writer_close'], wip=True, **BND, **W),
    dict(name='c18_close_resources_b', entry='h_close_resources', functions=['carquet_writer_close'], checks=LEAK,
         wip=True, **BND, **W),
    dict(name='c18_abort_b', entry='h_abort', functions=['carquet_writer_abort'], checks=LEAK, wip=True, **BND, **W),
]
