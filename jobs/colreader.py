# C02 / C19 — column reader / batch reader consumption logic
TRUST = [
    'stubs/colreader_stubs.c: memcpy/memset as contracts (ranges accessible, destination havocked) + ghost record of the copies; carquet_error_set as contract',
    'assumed contract of load_next_page (contracts/next_page.ovl): a successful load leaves page_num_values >= 0 rows, cursor 0, decoded buffers of page_num_values entries, page rows <= rows remaining in the chunk (valid file)',
    'column reader static facts of a valid file: physical type in 0..7, 0 <= type_length <= 2^24 (>= 1 for FIXED_LEN_BYTE_ARRAY), level maxima >= 0',
]
NP = dict(overlays=['contracts/next_page.ovl'], harness='harness/C02/colreader.c', includes=['.'],
          extra_sources=['stubs/colreader_stubs.c'], trusted=TRUST, prop='C02')

import glob as _g, os as _o
_REPO = _o.environ.get('CQV_REPO', '/repo')
ALL_SRC = sorted(_o.path.relpath(f, _REPO) for f in _g.glob(_o.path.join(_REPO, 'src', '**', '*.c'), recursive=True)
                 if '/simd/arm/' not in f and '/simd/x86/' not in f)
TYPES = [(0, 'boolean'), (1, 'int32'), (2, 'int64'), (3, 'int96'), (4, 'float'), (5, 'double'), (6, 'byte_array'), (7, 'flba')]
JOBS = []
# carquet_read_next_page, one job per physical type (value size is a constant per job, except FLBA)
for t, tn in TYPES:
    j = dict(name='c02_next_page_%s' % tn, entry='h_next_page', enforce='carquet_read_next_page', replace=['load_next_page'],
             min_loop_obligations=2, wip=True, est_s=30, timeout=300, defines=['CQV_TYPE=%d' % t],
             note='ok on the unchanged tree (2165 obligations). On deliberately broken copies cbmc finds the failing obligation, '
                  'but the driver reports undecided (rc=6): the json trace of symbolic-size malloc objects / havoc_slice runs out '
                  'of memory, so no VIOLATION line can be shown -> left wip; the c02_next_page_small_* twins are the validated ones', **NP)
    if tn == 'int96':      # x12 is not a shift: minisat does not finish in 300 s, cadical needs about 60 s
        j.update(backend=['cadical', 'sat'], timeout=600, est_s=70)
    if tn == 'flba':       # value size is the symbolic type_length: product of two variables
        j.update(backend=['cadical', 'sat'], timeout=900, tier='thorough', est_s=600, level='bounded',
                 bound='FIXED_LEN_BYTE_ARRAY type_length <= 16', defines=['CQV_TYPE=7', 'CQV_TL_MAX=16'],
                 note='not decided: symbolic type_length timed out at 300 s (minisat); the bounded/cadical variant was never run')
    JOBS.append(j)
# same contract with small buffers: a violation here comes with a counterexample the driver can print
# (json traces of symbolic-size objects exhaust memory); used for the break-the-code validation
for t, tn in [(1, 'int32'), (2, 'int64')]:
    JOBS.append(dict(name='c02_next_page_small_%s' % tn, entry='h_next_page', enforce='carquet_read_next_page', replace=['load_next_page'],
                     min_loop_obligations=2, wip=False, est_s=20, timeout=300, defines=['CQV_TYPE=%d' % t, 'CQV_SMALL=1'],
                     level='bounded', bound='page_num_values <= 8, max_values <= 8', **NP))
# the C02 obligation the code violates (dense delivery of nullable values across calls), unbounded form
JOBS.append(dict(name='c02_next_page_dense_int32', entry='h_next_page', enforce='carquet_read_next_page', replace=['load_next_page'],
                 min_loop_obligations=2, wip=True, est_s=30, timeout=300, defines=['CQV_TYPE=1', 'CQV_SMALL=1'],
                 level='bounded', bound='page_num_values <= 8, max_values <= 8 (keeps the json counterexample small)',
                 replayer=dict(kind='direct', harness='replay/direct/colreader_next_page_dense.c', sources=ALL_SRC,
                               vars={'pnv': 'cex_pnv', 'start': 'cex_start', 'maxv': 'cex_maxv', 'j': 'cex_j', 'defj': 'cex_defj', 'maxdef': 'cex_maxdef'}),
                 note='FINDING: values of a nullable page read in several calls are taken at row offset, not dense offset '
                      '(postcondition fails in 12 s with plain cbmc; the driver json-ui trace of symbolic-size malloc objects runs out of memory)', **NP))

# carquet_column_read_batch / carquet_column_skip (value size constant per job)
CR = dict(NP)
CR['overlays'] = ['contracts/next_page.ovl', 'contracts/column_reader.ovl']
# the reader's buffer pointers are havocked by the callee contract / loop havoc and then constrained by r_ok
# assumptions: cbmc's check that every r_ok argument is already a valid pointer cannot hold at that point
CR['cbmc_flags'] = ['--no-pointer-primitive-check']
CR['trusted'] = TRUST + ['read_batch/skip jobs run with --no-pointer-primitive-check (r_ok in assumed clauses is evaluated on havocked pointers)']
for t, tn in [(1, 'int32'), (2, 'int64'), (0, 'boolean'), (6, 'byte_array')]:
    JOBS.append(dict(name='c02_read_batch_%s' % tn, entry='h_read_batch', enforce='carquet_column_read_batch',
                     replace=['carquet_read_next_page'], min_loop_obligations=1, wip=True, est_s=60, timeout=300,
                     level='bounded', bound='values, def_levels, rep_levels all non-NULL; max_values <= INT32_MAX',
                     note='UNDECIDED (contract debugging unfinished, NOT a finding): loop-invariant preservation, the three buffer '
                          'postconditions and the loop assigns inclusion of def_levels/rep_levels do not close yet',
                     defines=['CQV_TYPE=%d' % t], **CR))
    JOBS.append(dict(name='c02_skip_%s' % tn, entry='h_skip', enforce='carquet_column_skip',
                     replace=['carquet_column_read_batch'], min_loop_obligations=1, wip=True, est_s=60, timeout=300,
                     note='never run: depends on the read_batch contract, which is not proved yet',
                     defines=['CQV_TYPE=%d' % t], **CR))

# batch reader: null bitmap, projection index, same rows in every column; C19 clone with failing allocations
BR = dict(CR)
BR['overlays'] = ['contracts/next_page.ovl', 'contracts/column_reader.ovl', 'contracts/batch_reader.ovl']
BR['harness'] = 'harness/C02/batch.c'
BR['trusted'] = CR['trusted'] + ['stubs/colreader_stubs.c: arena init/calloc/destroy as contracts',
                                  'batch harness: row group already open, flat schema, column reader type/max_def equal to the schema (what carquet_reader_get_column sets)']
JOBS.append(dict(name='c02_batch_next_int32', entry='h_batch_next', replace=['carquet_column_read_batch'],
                 functions=['carquet_batch_reader_next', 'carquet_row_batch_free'], unwind=4, min_loop_obligations=2,
                 level='bounded', bound='1..2 projected of 1..3 INT32 columns, row group open; rows unbounded',
                 wip=True, est_s=120, timeout=600, defines=['CQV_TYPE=1'], c19=True, **BR))
