# C02 / C19 — column reader / batch reader consumption logic
TRUST = [
    'stubs/colreader_stubs.c: memcpy/memset as contracts (ranges accessible, destination havocked) + ghost record of the copies; carquet_error_set as contract',
    'assumed contract of load_next_page (contracts/next_page.ovl): a successful load leaves page_num_values >= 0 rows, cursor 0, decoded buffers of page_num_values entries, page rows <= rows remaining in the chunk (valid file)',
    'column reader static facts of a valid file: physical type in 0..7, 0 <= type_length <= 2^24 (>= 1 for FIXED_LEN_BYTE_ARRAY), level maxima >= 0',
]
NP = dict(overlays=['contracts/next_page.ovl'], harness='harness/C02/colreader.c', includes=['.'],
          extra_sources=['stubs/colreader_stubs.c'], trusted=TRUST, prop='C02')

TYPES = [(0, 'boolean'), (1, 'int32'), (2, 'int64'), (3, 'int96'), (4, 'float'), (5, 'double'), (6, 'byte_array'), (7, 'flba')]
JOBS = []
for t, tn in TYPES:
    JOBS.append(dict(name='c02_next_page_%s' % tn, entry='h_next_page', enforce='carquet_read_next_page', replace=['load_next_page'],
         loop_contracts=False, wip=True, est_s=60, timeout=240, defines=['CQV_TYPE=%d' % t],
         note='FINDING: values of a nullable page read in several calls are taken at row offset, not dense offset', **NP))

