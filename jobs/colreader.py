# C02 / C19 — column reader / batch reader consumption logic
TRUST = [
    'stubs/colreader_stubs.c: memcpy/memset as contracts (ranges accessible, destination havocked) + ghost record of the copies; carquet_error_set as contract',
    'assumed contract of load_next_page (contracts/next_page.ovl): a successful load leaves page_num_values >= 0 rows, cursor 0, decoded buffers of page_num_values entries, page rows <= rows remaining in the chunk (valid file)',
    'column reader static facts of a valid file: physical type in 0..7, 0 <= type_length <= 2^24 (>= 1 for FIXED_LEN_BYTE_ARRAY), level maxima >= 0',
]
NP = dict(overlays=['contracts/next_page.ovl'], harness='harness/C02/colreader.c', includes=['.'],
          extra_sources=['stubs/colreader_stubs.c'], trusted=TRUST, prop='C02')

import glob as _g, os as _o
_REPO = _o.environ.get('CQV_REPO', '/repo')
ALL_SRC = sorted(_o.path.relpath(f, _REPO) for f in _g.glob(_o.path.join(_REPO, 'src', '**', '*.c'), recursive=True)
                 if '/simd/arm/' not in f and '/simd/x86/' not in f)
TYPES = [(0, 'boolean'), (1, 'int32'), (2, 'int64'), (3, 'int96'), (4, 'float'), (5, 'double'), (6, 'byte_array'), (7, 'flba')]
JOBS = []
# carquet_read_next_page, one job per physical type (value size is a constant per job, except FLBA)
for t, tn in TYPES:
    j = dict(name='c02_next_page_%s' % tn, entry='h_next_page', enforce='carquet_read_next_page', replace=['load_next_page'],
             min_loop_obligations=2, wip=False, est_s=70, timeout=600, defines=['CQV_TYPE=%d' % t], **NP)
    if tn == 'int96':      # x12 is not a shift: cadical is much faster than minisat here
        j.update(backend=['cadical', 'sat'], timeout=900, est_s=180)
    if tn == 'flba':       # value size is the symbolic type_length: product of two variables
        j.update(backend=['cadical', 'sat'], timeout=900, tier='thorough', est_s=900, level='bounded', wip=True,
                 bound='FIXED_LEN_BYTE_ARRAY type_length <= 16', defines=['CQV_TYPE=7', 'CQV_TL_MAX=16'],
                 note='UNDECIDED: times out (900 s, cadical and minisat) even with type_length <= 16; see c02_next_page_flba16')
    JOBS.append(j)
# FIXED_LEN_BYTE_ARRAY with one concrete length per job (16 = UUID / decimal128)
JOBS.append(dict(name='c02_next_page_flba16', entry='h_next_page', enforce='carquet_read_next_page', replace=['load_next_page'],
                 min_loop_obligations=2, wip=False, est_s=80, timeout=600, defines=['CQV_TYPE=7', 'CQV_TL_FIX=16'],
                 level='bounded', bound='FIXED_LEN_BYTE_ARRAY type_length == 16', **NP))
# same contract with small buffers: a violation here comes with a counterexample the driver can print
# (json traces of symbolic-size objects exhaust memory); used for the break-the-code validation
for t, tn in [(1, 'int32'), (2, 'int64')]:
    JOBS.append(dict(name='c02_next_page_small_%s' % tn, entry='h_next_page', enforce='carquet_read_next_page', replace=['load_next_page'],
                     min_loop_obligations=2, wip=False, est_s=20, timeout=300, defines=['CQV_TYPE=%d' % t, 'CQV_SMALL=1'],
                     level='bounded', bound='page_num_values <= 8, max_values <= 8', **NP))
# the C02 obligation the code violated before a76a80d (dense delivery of nullable values across calls), exact bounded form + native replayer
JOBS.append(dict(name='c02_next_page_dense_int32', entry='h_next_page', enforce='carquet_read_next_page', replace=['load_next_page'],
                 min_loop_obligations=2, wip=False, est_s=40, timeout=300, defines=['CQV_TYPE=1', 'CQV_SMALL=1'],
                 level='bounded', bound='page_num_values <= 8, max_values <= 8 (keeps the json counterexample small)',
                 replayer=dict(kind='direct', harness='replay/direct/colreader_next_page_dense.c', sources=ALL_SRC,
                               vars={'pnv': 'cex_pnv', 'start': 'cex_start', 'maxv': 'cex_maxv', 'j': 'cex_j', 'defj': 'cex_defj', 'maxdef': 'cex_maxdef'}),
                 note='exact dense-slice statement (spec count unrolled over a page of <= 8 rows); failed before /repo a76a80d, passes since', **NP))

# carquet_column_read_batch / carquet_column_skip (value size constant per job).
# Their loops re-allocate the reader's page buffers through the callee contract; after the loop-contract
# havoc those pointers are arbitrary and cbmc cannot carry "pointer is valid" through an invariant
# (r_ok on a havocked pointer: pointer-primitive check / inconsistent evaluation).  So these loops are
# UNWOUND (goto-instrument --unwind, paths beyond the bound cut): bounded in the number of pages / chunks
# per call, unbounded in rows.  The loop contracts stay in the overlay as documentation.
CR = dict(NP)
CR['overlays'] = ['contracts/next_page.ovl', 'contracts/column_reader.ovl']
RB_BOUND = 'at most 2 loop iterations (pages) per call; values non-NULL; %s'
for t, tn, d, r, suffix in [(1, 'int32', 1, 1, ''), (1, 'int32', 0, 0, '_nolevels'), (1, 'int32', 1, 0, '_defonly'),
                            (2, 'int64', 1, 1, ''), (0, 'boolean', 0, 0, '_nolevels'), (6, 'byte_array', 1, 0, '_defonly')]:
    JOBS.append(dict(name='c02_read_batch_%s%s' % (tn, suffix), entry='h_read_batch', enforce='carquet_column_read_batch',
                     replace=['carquet_read_next_page'], loop_contracts=False, gi_unwind=3, wip=False, est_s=110, timeout=900, backend=['cadical', 'sat'],
                     level='bounded', bound=RB_BOUND % ('def_levels %s, rep_levels %s' % ('non-NULL' if d else 'NULL', 'non-NULL' if r else 'NULL')),
                     defines=['CQV_TYPE=%d' % t, 'CQV_RB_DEF=%d' % d, 'CQV_RB_REP=%d' % r], **CR))
for t, tn in [(1, 'int32'), (2, 'int64'), (6, 'byte_array')]:
    JOBS.append(dict(name='c02_skip_%s' % tn, entry='h_skip', enforce='carquet_column_skip',
                     replace=['carquet_column_read_batch'], loop_contracts=False, gi_unwind=4, wip=False, est_s=60, timeout=600,
                     level='bounded', bound='at most 3 chunks of 1024 rows per call',
                     defines=['CQV_TYPE=%d' % t], **CR))

# batch reader: null bitmap, projection index, same rows in every column; C19 clone with failing allocations
BR = dict(CR)
BR['cbmc_flags'] = ['--no-malloc-may-fail']   # cbmc 6 lets malloc fail by default; the C19 twin below keeps that
BR['overlays'] = ['contracts/next_page.ovl', 'contracts/column_reader.ovl', 'contracts/batch_reader.ovl']
BR['harness'] = 'harness/C02/batch.c'
BR['trusted'] = CR['trusted'] + ['stubs/colreader_stubs.c: arena init/calloc/destroy as contracts',
                                  'batch harness: carquet_reader_schema / num_row_groups / column_has_next / column_remaining restated from file_reader.c (one-line getters)', 'batch harness: row group already open, flat schema, column reader type/max_def equal to the schema (what carquet_reader_get_column sets)']
BRJ = dict(entry='h_batch_next', replace=['carquet_column_read_batch', 'carquet_read_next_page', 'load_next_page'],
           functions=['carquet_batch_reader_next', 'carquet_row_batch_free'], unwind=4, min_loop_obligations=2, level='bounded')
# one projected column out of two file columns: null bitmap (ghost row, rows unbounded), max_def index, required column
JOBS.append(dict(name='c02_batch_next_int32', wip=False, est_s=30, timeout=600, defines=['CQV_TYPE=1', 'CQV_NP_MAX=1', 'CQV_NL_MAX=2'],
                 bound='1 projected column of 1..2 INT32 file columns, row group open; rows unbounded', **BRJ, **BR))
# two projected columns: every column of a batch has the same number of rows
JOBS.append(dict(name='c02_batch_rows_int32', wip=False, est_s=300, timeout=900, mem_gb=12, defines=['CQV_TYPE=1', 'CQV_NP_MAX=2', 'CQV_NL_MAX=2', 'CQV_NP_EXACT=1'],
                 checks=['--bounds-check'],   # memory safety of the column body: c02_batch_next_int32
                 bound='exactly 2 projected columns of 2 INT32 file columns, row group open; rows unbounded',
                 note='failed before /repo 2881a0c: zero-copy path (mmap, REQUIRED column, page smaller than the batch) delivered page_num_values rows '
                      'while the other columns deliver rows_to_read -> columns of one batch differ in length (native: /tmp/colreader/demo_zc)',
                 **BRJ, **BR))
# C19: the same one-column job with every allocation allowed to fail (cbmc 6 default) + leak check
# batch reader creation: what projection ends up in projected_columns (by index / by name / none), bounded in length
BC = dict(BR)
BC['harness'] = 'harness/C02/batch_create.c'
BC['trusted'] = CR['trusted'] + ['batch_create harness: carquet_schema_find_column as an assumed contract (deterministic in the name, result in [-1, num_leaves)); carquet_reader_num_columns restated (one-line getter)']
JOBS.append(dict(name='c02_batch_create_projection', wip=False, est_s=40, timeout=600, entry='h_batch_create', replace=['carquet_column_read_batch', 'carquet_read_next_page', 'load_next_page'],
                 functions=['carquet_batch_reader_create', 'resolve_column_name'], unwind=8, level='bounded', min_loop_obligations=0,
                 defines=['CQV_TYPE=1', 'CQV_MEMCPY_EXACT=16', 'CQV_MEMSET_EXACT=64'], unwindset=['memcpy.0:17', 'memset.0:65'],
                 bound='projection length <= 4 entries, file columns <= 6; indices and names symbolic', c19=True, **BC))
# opening a row group: slot i <- reader of file column projection[i]; projection untouched (bounded in projected columns)
BO = dict(BC)
BO['harness'] = 'harness/C02/batch_open.c'
BO['trusted'] = CR['trusted'] + ['batch_open harness: carquet_reader_get_column / carquet_column_reader_free as assumed contracts (token readers recording row group and column; get_column may fail)']
JOBS.append(dict(name='c02_batch_open_row_group', wip=False, est_s=40, timeout=600, entry='h_open_row_group',
                 replace=['carquet_column_read_batch', 'carquet_read_next_page', 'load_next_page'],
                 functions=['open_row_group_readers'], unwind=8, level='bounded', min_loop_obligations=0,
                 defines=['CQV_TYPE=1'], bound='<= 3 projected columns; row group index, column indices symbolic', **BO))
# the accessors the other C02 harnesses restate, on the real file_reader.c (no overlay, loop free)
JOBS.append(dict(name='c02_reader_getters', prop='C02', wip=False, est_s=20, timeout=600, entry='h_reader_getters', overlays=[],
                 harness='harness/C02/getters.c', includes=['.', 'src'], loop_contracts=False, extra_sources=['stubs/mem_stubs.c'],
                 functions=['carquet_column_has_next', 'carquet_column_remaining', 'carquet_reader_schema', 'carquet_reader_num_columns',
                            'carquet_reader_num_row_groups', 'carquet_reader_num_rows'],
                 trusted=['none beyond CBMC (accessors are loop free; harness gives them an arbitrary reader state)']))
BR19 = dict(BR)
BR19['prop'] = 'C19'
JOBS.append(dict(name='c19_batch_next_int32', wip=False, est_s=20, timeout=600,
                 defines=['CQV_TYPE=1', 'CQV_NP_MAX=1', 'CQV_NL_MAX=1', 'CQV_C19=1'],
                 bound='1 projected OPTIONAL INT32 column, row group open, batch_size <= 8; every malloc/calloc made by '
                       'batch_reader.c may fail independently (wrapper), all other allocations succeed',
                 **BRJ, **BR19))
