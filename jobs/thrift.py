# Thrift compact protocol primitives: reader (C08/C04) and writer<->reader (C13)
TD = dict(overlays=['contracts/thrift_decode.ovl'], harness='harness/C08/thrift.c', includes=['.'],
          extra_sources=['stubs/mem_stubs.c', 'stubs/thrift_stubs.c'],
          trusted=['stubs/thrift_stubs.c: strncpy(dst,src,n) only makes dst[0..n) arbitrary'])

# every job below was seen `ok` on the unchanged tree AND failing on a deliberately broken scratch copy
# (mutation sets in the author's report); the three former finding jobs carry a note naming the /repo fix
WIP = False
FZ_SKIP = dict(kind='fuzz', harness='replay/fz/thrift_skip.c', max_len=48, secs=20,
               sources=['src/thrift/thrift_decode.c', 'src/core/buffer.c'])
SKIP_CALLEES = ['thrift_skip__rec', 'thrift_read_varint', 'thrift_read_binary', 'thrift_read_list_begin',
                'thrift_read_map_begin', 'thrift_read_struct_begin', 'thrift_read_struct_end',
                'thrift_read_field_begin']


def td(name, entry, enforce=None, replace=(), **kw):
    d = dict(name='c08_thrift_' + name, props=['C08', 'C04'], entry=entry, enforce=enforce, replace=list(replace), wip=WIP)
    d.update(TD)
    d.update(kw)
    return d


JOBS = [
    td('decoder_init', 'h_td_init', loop_contracts=False,
       functions=['thrift_decoder_init', 'thrift_decoder_init_reader']),
    td('read_varint', 'h_td_varint', 'thrift_read_varint', min_loop_obligations=1),
    td('read_zigzag', 'h_td_zigzag', 'thrift_read_zigzag', ['thrift_read_varint']),
    td('read_byte', 'h_td_byte', 'thrift_read_byte'),
    td('read_i16', 'h_td_i16', 'thrift_read_i16', ['thrift_read_zigzag']),
    td('read_i32', 'h_td_i32', 'thrift_read_i32', ['thrift_read_zigzag']),
    td('read_i64', 'h_td_i64', 'thrift_read_i64', ['thrift_read_zigzag']),
    td('read_double', 'h_td_double', 'thrift_read_double'),
    td('read_bool', 'h_td_bool', 'thrift_read_bool'),
    td('read_binary', 'h_td_binary', 'thrift_read_binary', ['thrift_read_varint']),
    td('read_uuid', 'h_td_uuid', 'thrift_read_uuid'),
    td('read_string_alloc', 'h_td_string_alloc', None, ['thrift_read_binary'], loop_contracts=False,
       functions=['thrift_read_string_alloc'],
       checks=['--bounds-check', '--pointer-check', '--div-by-zero-check', '--signed-overflow-check',
               '--undefined-shift-check', '--memory-leak-check'],
       cbmc_flags=['--malloc-may-fail', '--malloc-fail-null']),
    td('struct_begin', 'h_td_struct_begin', 'thrift_read_struct_begin'),
    td('struct_end', 'h_td_struct_end', 'thrift_read_struct_end'),
    td('field_begin', 'h_td_field_begin', 'thrift_read_field_begin', ['thrift_read_i16']),
    td('list_begin', 'h_td_list_begin', 'thrift_read_list_begin', ['thrift_read_varint']),
    td('set_begin', 'h_td_set_begin', 'thrift_read_set_begin', ['thrift_read_list_begin']),
    td('map_begin', 'h_td_map_begin', 'thrift_read_map_begin', ['thrift_read_varint']),
    td('skip', 'h_td_skip', 'thrift_skip', SKIP_CALLEES, min_loop_obligations=3, est_s=60, replayer=FZ_SKIP),
    # recursion depth: one thrift_skip frame per struct nesting level at most (ghost cqv_skip_depth)
    dict(td('skip_depth', 'h_td_skip', 'thrift_skip', SKIP_CALLEES, min_loop_obligations=3, est_s=60,
            defines=['CQV_SKIP_DEPTH=1'],
            note='was a FINDING (unbounded recursion through LIST/SET/MAP, ASan stack-overflow on 2^20 bytes 0x19); '
                 'repaired by /repo c4710ce (containers count against THRIFT_MAX_NESTING); fails again when that '
                 'commit is reverted in a scratch copy',
            replayer=dict(kind='direct', harness='replay/direct/thrift_skip_depth.c', vars={},
                          sources=['src/thrift/thrift_decode.c', 'src/core/buffer.c'])), name='c04_thrift_skip_depth', props=['C04']),
    # exact consumption per wire type (fixed-width scalars, list/set of fixed-width elements)
    dict(td('skip_exact', 'h_td_skip', 'thrift_skip', SKIP_CALLEES, min_loop_obligations=3, est_s=120,
            defines=['CQV_SKIP_EXACT=1'], replayer=FZ_SKIP,
            note='was a FINDING (bool container elements consumed 0 bytes; truncated BYTE/DOUBLE/UUID skipped '
                 'silently); repaired by /repo 42f5340 and 0d3a776; now also covers map<fixed K, fixed V>; fails '
                 'again when either fix is disabled in a scratch copy'), name='c13_thrift_skip_exact', props=['C13']),
    td('skip_field', 'h_td_skip_field', 'thrift_skip_field', ['thrift_skip']),
]

# ---------------------------------------------------------------------------------------------
# C13: writer <-> reader primitives, all values ("harness is the contract", loops unwound completely)
TE = dict(overlays=['contracts/thrift_encode.ovl'], harness='harness/C13/thrift.c', includes=['.'], prop='C13',
          extra_sources=['stubs/mem_stubs.c', 'stubs/thrift_stubs.c'], loop_contracts=False,
          defines=['CQV_MEMCPY_EXACT=16'], unwind=17, wip=WIP,
          trusted=['stubs/thrift_stubs.c: strncpy(dst,src,n) only makes dst[0..n) arbitrary',
                   'stubs/mem_stubs.c with CQV_MEMCPY_EXACT=16: copies of <= 16 bytes are exact'])


def te(name, entry, functions, **kw):
    d = dict(name='c13_thrift_' + name, entry=entry, functions=functions)
    d.update(TE)
    d.update(kw)
    return d


JOBS += [
    te('varint', 'h13_varint', ['thrift_write_varint', 'thrift_read_varint']),
    te('varint_decode_any', 'h13_varint_decode_any', ['thrift_read_varint']),
    te('i64', 'h13_i64', ['thrift_write_i64', 'thrift_write_zigzag', 'thrift_read_i64', 'thrift_read_zigzag']),
    te('i32', 'h13_i32', ['thrift_write_i32', 'thrift_read_i32']),
    te('i16', 'h13_i16', ['thrift_write_i16', 'thrift_read_i16']),
    te('byte', 'h13_byte', ['thrift_write_byte', 'thrift_read_byte']),
    te('double', 'h13_double', ['thrift_write_double', 'thrift_read_double']),
    te('bool', 'h13_bool', ['thrift_write_bool', 'thrift_read_bool']),
    te('binary', 'h13_binary', ['thrift_write_binary', 'thrift_read_binary'], level='bounded',
       bound='payload length <= 16 bytes (all contents); all lengths are covered by c13_thrift_binary_len'),
    te('binary_len', 'h13_binary_len', ['thrift_write_binary', 'thrift_read_binary'], tier='thorough', timeout=1200, est_s=60),
    te('uuid', 'h13_uuid', ['thrift_write_uuid', 'thrift_read_uuid']),
    te('field_header_roundtrip', 'h13_field_header_roundtrip',
       ['thrift_write_field_header', 'thrift_read_field_begin', 'thrift_read_bool']),
    te('field_header_form', 'h13_field_header_form', ['thrift_write_field_header'],
       note='was a FINDING (int16 wrap-around of field_id - last_id chose the short form, e.g. last 32765, id -32767); '
            'repaired by /repo 1aa5bb7; fails again when that commit is reverted in a scratch copy',
       replayer=dict(kind='direct', harness='replay/direct/thrift_field_header.c',
                     sources=['src/thrift/thrift_encode.c', 'src/core/buffer.c'],
                     vars={'nl': 'nl', 'last': 'last', 'fid': 'fid', 'type': 'type'})),
    te('field_header_form_nowrap', 'h13_field_header_form', ['thrift_write_field_header'],
       defines=['CQV_MEMCPY_EXACT=16', 'CQV_NOWRAP=1']),
    te('struct', 'h13_struct', ['thrift_write_struct_begin', 'thrift_write_struct_end', 'thrift_write_field_stop',
                                'thrift_read_struct_begin', 'thrift_read_struct_end', 'thrift_read_field_begin']),
    te('list_begin', 'h13_list_begin', ['thrift_write_list_begin', 'thrift_read_list_begin']),
    te('set_begin', 'h13_list_begin', ['thrift_write_set_begin', 'thrift_read_set_begin'],
       defines=['CQV_MEMCPY_EXACT=16', 'CQV_SET=1']),
    te('map_begin', 'h13_map_begin', ['thrift_write_map_begin', 'thrift_read_map_begin']),
]
