# C16 — statistics are true bounds; predicate pushdown has no false negatives
STUBS = ['stubs/stats_stubs.c']
TR = ['stubs/stats_stubs.c: memcpy/memset exact for n <= 16 (else havoc), memcmp = true lexicographic sign for n <= 8 (else arbitrary); ranges must be accessible']
RD = dict(prop='C16', harness='harness/C16/reader_stats.c', overlays=['contracts/stats_reader.ovl'], includes=['.'],
          extra_sources=STUBS, trusted=TR, loop_contracts=False)
RGM_FUNCS = ['carquet_reader_row_group_matches', 'carquet_reader_column_statistics', 'get_compare_fn']
T = dict(i32=0, i64=1, float=2, double=3, bytes=4, flba=5, bool=6)
CMP = dict(i32='compare_int32', i64='compare_int64', float='compare_float', double='compare_double')
RN = dict(i32='i32', i64='i64', float='f32', double='f64')
RGM_VARS = dict((v, v) for v in ['present', 'vbits', 'xbits', 'nminbits', 'nmaxbits', 'dminbits', 'dmaxbits', 'op'])
def rgm_replayer(t):
    return dict(kind='direct', harness='replay/direct/stats_rgm_%s.c' % RN[t], sources=[], vars=RGM_VARS)

JOBS = []
# 1. row_group_matches, numeric types: harness is the contract (loop-free), full domain
for t in ['i32', 'i64', 'float', 'double']:
    JOBS.append(dict(name='c16_rgm_%s' % t, entry='h_rgm_numeric', defines=['CQV_T=%d' % T[t], 'CQV_MEMSET_EXACT=64'],
                     functions=RGM_FUNCS + [CMP[t]], replayer=rgm_replayer(t), wip=True, **RD))
# statistics fields of arbitrary length: no read beyond the field
for t in ['i32', 'i64', 'float', 'double', 'bool']:
    JOBS.append(dict(name='c16_rgm_%s_anylen' % t, entry='h_rgm_numeric_anylen', defines=['CQV_T=%d' % T[t], 'CQV_MEMSET_EXACT=64'],
                     functions=RGM_FUNCS, wip=True,
                     replayer=dict(kind='direct', harness='replay/direct/stats_rgm_anylen_%s.c' % RN.get(t, t), sources=[],
                                   vars=dict(present='present', l1='l1', l2='l2', l3='l3', l4='l4')), **RD))
for t in ['bytes', 'flba', 'bool']:
    JOBS.append(dict(name='c16_rgm_%s' % t, entry='h_rgm_bytes', defines=['CQV_T=%d' % T[t], 'CQV_MEMSET_EXACT=64', 'CQV_MAXLEN=8'],
                     level='bounded', bound='value, min, max and the witness value x at most 8 bytes each',
                     functions=RGM_FUNCS + ['compare_bytes'], wip=True, **RD))
    JOBS.append(dict(name='c16_rgm_%s_safety' % t, entry='h_rgm_bytes_safety', defines=['CQV_T=%d' % T[t], 'CQV_MEMSET_EXACT=64'],
                     functions=RGM_FUNCS + ['compare_bytes'], wip=True, **RD))

JOBS.append(dict(name='c16_column_statistics', entry='h_column_statistics', defines=['CQV_T=0', 'CQV_MEMSET_EXACT=64'],
                 functions=['carquet_reader_column_statistics'], wip=True, **RD))

# 2. filter_row_groups: enforce contract; row_group_matches replaced by its (outcome-naming) contract
JOBS.append(dict(name='c16_filter_row_groups', entry='h_filter_row_groups', enforce='carquet_reader_filter_row_groups',
                 replace=['carquet_reader_row_group_matches'], min_loop_obligations=1,
                 prop='C16', harness='harness/C16/reader_stats.c', overlays=['contracts/stats_reader.ovl'], includes=['.'],
                 extra_sources=STUBS,
                 trusted=TR + ['carquet_reader_num_row_groups (src/reader/file_reader.c) re-stated in the harness: returns reader->metadata.num_row_groups',
                               'row_group_matches is called once per group; its outcome for the ghost group k is named cqv_incl_k'],
                 wip=True))

# 3. statistics builder (src/metadata/statistics.c)
BT = dict(bool=0, i32=1, i64=2, int96=3, float=4, double=5)
BD = dict(prop='C16', harness='harness/C16/builder_stats.c', overlays=['contracts/stats_builder.ovl'], includes=['.'],
          extra_sources=STUBS, trusted=TR)
AV = dict(unwindset=['compare_int96.0:4', 'memcmp.0:9', 'memcpy.0:9'], timeout=300)
for t in ['bool', 'i32', 'i64', 'float', 'double']:
    JOBS.append(dict(name='c16_builder_add_values_%s' % t, entry='h_add_values', enforce='carquet_statistics_add_values',
                     defines=['CQV_BT=%d' % BT[t], 'CQV_STATS_EXACT=8'], min_loop_obligations=1, wip=True, **AV, **BD))
for t in ['float', 'double']:
    JOBS.append(dict(name='c16_builder_%s_seq' % t, entry='h_builder_fp_seq', loop_contracts=False, unwind=17,
                     defines=['CQV_BT=%d' % BT[t], 'CQV_STATS_EXACT=8'], level='bounded', bound='fresh builder, one add_values call with 1..3 values',
                     functions=['carquet_statistics_add_values', 'carquet_statistics_builder_create', 'compare_%s' % t],
                     replayer=dict(kind='direct', harness='replay/direct/stats_builder_%s.c' % RN[t], sources=['src/core/arena.c'],
                                   vars=dict(v0bits='v0bits', v1bits='v1bits', v2bits='v2bits', n='n')),
                     wip=True, **BD))
# INT96 (12-byte values, compare_int96 unwound) and FLBA(16) (compare_byte_array, memcmp exact for 16 bytes): same contract
JOBS.append(dict(name='c16_builder_add_values_int96', entry='h_add_values', enforce='carquet_statistics_add_values',
                 defines=['CQV_BT=3', 'CQV_STATS_EXACT=16'], min_loop_obligations=1,
                 unwindset=['compare_int96.0:4', 'memcmp.0:9', 'memcpy.0:17'], timeout=600, wip=True, **BD))
JOBS.append(dict(name='c16_builder_add_values_flba16', entry='h_add_values', enforce='carquet_statistics_add_values',
                 defines=['CQV_BT=7', 'CQV_FLBA16=1', 'CQV_STATS_EXACT=16', 'CQV_STATS_CMP=16'], min_loop_obligations=1,
                 unwindset=['compare_int96.0:4', 'memcmp.0:17', 'memcpy.0:17'], timeout=300, level='bounded',
                 bound='FIXED_LEN_BYTE_ARRAY with type_length == 16', wip=True, **BD))
JOBS.append(dict(name='c16_compare_int96', entry='h_compare_int96', loop_contracts=False, defines=['CQV_BT=3'],
                 functions=['compare_int96'], wip=True, **BD))
JOBS.append(dict(name='c16_stats_compare_int96', entry='h_stats_compare_int96', loop_contracts=False, defines=['CQV_BT=3', 'CQV_STATS_CMP=16'],
                 functions=['carquet_statistics_compare', 'compare_int96'], wip=True, **BD))
JOBS.append(dict(name='c16_range_overlaps_int96', entry='h_range_overlaps_int96', loop_contracts=False, defines=['CQV_BT=3', 'CQV_STATS_CMP=16'],
                 functions=['carquet_statistics_range_overlaps', 'compare_byte_array'], wip=True, **BD))
for hn in ['stats_compare', 'range_overlaps']:
    JOBS.append(dict(name='c16_%s_bool' % hn, entry='h_' + hn, loop_contracts=False, defines=['CQV_BT=0', 'CQV_STATS_EXACT=8'],
                     functions=['carquet_statistics_' + ('compare' if hn == 'stats_compare' else hn), 'compare_boolean', 'compare_byte_array'], wip=True, **BD))
# FLBA wider than the min/max storage is rejected before anything is written (loop cut by its contract, not reached)
JOBS.append(dict(name='c16_builder_flba_wide', entry='h_flba_wide', defines=['CQV_BT=7', 'CQV_STATS_EXACT=8'],
                 functions=['carquet_statistics_add_values', 'get_value_size'], wip=True, **AV, **BD))
BSEQ = ['carquet_statistics_add_byte_arrays.0:4', 'memcmp.0:9', 'memcpy.0:9', 'memset.0:97']
JOBS.append(dict(name='c16_builder_byte_arrays_seq', entry='h_byte_arrays_seq', loop_contracts=False, unwindset=BSEQ,
                 defines=['CQV_BT=6', 'CQV_STATS_EXACT=8', 'CQV_MEMSET_EXACT=96'], level='bounded',
                 bound='fresh builder, one add_byte_arrays call with 1..3 values; order claim for values of at most 8 bytes, absence claim for any value > 256 bytes',
                 functions=['carquet_statistics_add_byte_arrays', 'carquet_statistics_build', 'compare_byte_array', 'carquet_statistics_builder_create'],
                 timeout=300, wip=True, **BD))
JOBS.append(dict(name='c16_builder_build', entry='h_build', loop_contracts=False, unwindset=['memcpy.0:9', 'memset.0:97'],
                 defines=['CQV_BT=6', 'CQV_STATS_EXACT=8', 'CQV_MEMSET_EXACT=96'], functions=['carquet_statistics_build'], wip=True, **BD))
JOBS.append(dict(name='c16_builder_add_nulls', entry='h_add_nulls', loop_contracts=False, functions=['carquet_statistics_add_nulls'],
                 defines=['CQV_BT=1'], wip=True, **BD))

# 4. page writer running statistics (src/writer/page_writer.c: update_statistics_*)
PW = dict(prop='C16', harness='harness/C16/page_writer_stats.c', overlays=['contracts/page_writer_stats.ovl'], includes=['.'],
          extra_sources=STUBS, trusted=TR)
# Tool limitation: the legacy loop-contract pass does not accept the memcpy stub's byte writes into the loop-body locals
# `min_v`/`max_v` (memcpy(&min_v, writer->min_value, 4)) as assignable; that frame check of the stub (same text for
# every memcpy call site) is reported as a supporting fact, not counted.  Destination ranges are still checked by
# memcpy's w_ok precondition and all sizes are the constants 4/8 <= 64.
PW_SOFT = [r'^Check that \(\(uint8_t \*\)dst\)\[.*\] is assignable']
PWT = dict(i32=0, i64=1, float=2, double=3)
PW_SRCS = ['src/core/buffer.c', 'src/core/bitpack.c', 'src/encoding/plain.c', 'src/encoding/rle.c', 'src/thrift/thrift_encode.c',
           'src/compression/snappy.c', 'src/compression/lz4.c', 'src/compression/gzip.c', 'src/compression/zstd.c', 'src/util/crc32.c']
for t in ['i32', 'i64', 'float', 'double']:
    JOBS.append(dict(name='c16_pw_update_statistics_%s' % t, entry='h_update_statistics', enforce='update_statistics_%s' % t,
                     defines=['CQV_PW=%d' % PWT[t], 'CQV_STATS_EXACT=8'], unwindset=['memcpy.0:9'], min_loop_obligations=1,
                     timeout=300, soft=PW_SOFT, wip=True, **PW))
for t in ['float', 'double']:
    JOBS.append(dict(name='c16_pw_%s_seq' % t, entry='h_pw_fp_seq', loop_contracts=False, unwind=9,
                     defines=['CQV_PW=%d' % PWT[t], 'CQV_STATS_EXACT=8'], level='bounded', bound='page statistics reset, one update with 1..3 values',
                     functions=['update_statistics_%s' % t],
                     replayer=dict(kind='direct', harness='replay/direct/stats_pw_%s.c' % RN[t], sources=PW_SRCS,
                                   vars=dict(v0bits='v0bits', v1bits='v1bits', v2bits='v2bits', n='n')),
                     wip=True, **PW))

# 4b. page writer null counter across reset / add_values (page-header Statistics.null_count)
JOBS.append(dict(name='c16_pw_null_count', entry='h_pw_null_count', loop_contracts=False, unwind=18, object_bits=11,
                 defines=['CQV_PW=0', 'CQV_STATS_EXACT=8', 'CQV_PW_NULLS=1'], level='bounded',
                 bound='page reset, then 1..2 add_values calls of 0..4 rows each, max_def_level 0..3',
                 functions=['carquet_page_writer_reset', 'carquet_page_writer_add_values', 'carquet_page_writer_null_count'],
                 est_s=30, wip=False, **dict(PW, props=['C16', 'C19', 'C14'])))

# 5. helpers: statistics_compare, range_overlaps (statistics.c), page_might_match (page_index.c): loop-free lemmas
for t in ['i32', 'i64', 'float', 'double']:
    JOBS.append(dict(name='c16_stats_compare_%s' % t, entry='h_stats_compare', loop_contracts=False, defines=['CQV_BT=%d' % BT[t], 'CQV_STATS_EXACT=8'],
                     functions=['carquet_statistics_compare', 'compare_%s' % dict(i32='int32', i64='int64').get(t, t)], wip=True, **BD))
    JOBS.append(dict(name='c16_range_overlaps_%s' % t, entry='h_range_overlaps', loop_contracts=False, defines=['CQV_BT=%d' % BT[t], 'CQV_STATS_EXACT=8'],
                     functions=['carquet_statistics_range_overlaps', 'compare_%s' % dict(i32='int32', i64='int64').get(t, t)], wip=True, **BD))
PI = dict(prop='C16', harness='harness/C16/page_index.c', overlays=['contracts/page_index.ovl'], includes=['.'], extra_sources=STUBS,
          trusted=TR, loop_contracts=False, functions=['carquet_column_index_page_might_match', 'page_value_compare'])
for t in ['i32', 'i64', 'float', 'double']:
    rp = 'replay/direct/stats_page_might_match%s.c' % ('' if t == 'i32' else '_' + RN[t])
    JOBS.append(dict(name='c16_page_might_match_%s' % t, entry='h_page_might_match_num', defines=['CQV_PT=%d' % BT[t], 'CQV_STATS_EXACT=8'], wip=True,
                     replayer=dict(kind='direct', harness=rp, sources=['src/core/buffer.c', 'src/thrift/thrift_encode.c'],
                                   vars=dict((v, v) for v in ['pmin', 'pmax', 'qmin', 'qmax', 'x', 'present'])), **PI))
JOBS.append(dict(name='c16_page_might_match_bytes', entry='h_page_might_match_bytes', defines=['CQV_PT=6'], level='bounded',
                 bound='page min/max 1..8 bytes, query values and the witness value at most 8 bytes', wip=True, **PI))

# ---- status ------------------------------------------------------------------------------------------------
# Every job below is ok on /repo (>= 3a560b6) and was seen failing on a scratch copy with the corresponding fix
# reverted / a breakage applied (see report).  Former findings, now repaired upstream, and the jobs that pin them:
FIXED = {
    '0da1c76 short/BOOLEAN statistics over-read in row_group_matches': 'c16_rgm_{i32,i64,float,double,bool}_anylen, c16_rgm_bool, c16_rgm_bool_safety',
    'b21d083 `!= NaN` pruned every row group': 'c16_rgm_float, c16_rgm_double',
    '75caa73 builder stored NaN as max': 'c16_builder_add_values_{float,double}, c16_builder_{float,double}_seq',
    '7287a8d builder overflow for FLBA type_length > 256': 'c16_builder_flba_wide',
    'e091c9e false bounds after skipping byte arrays > 256 bytes': 'c16_builder_byte_arrays_seq, c16_builder_build',
    'ccfd648 page statistics stuck at NaN': 'c16_pw_update_statistics_{float,double}, c16_pw_{float,double}_seq',
    '3a560b6 page_might_match memcmp on numerics': 'c16_page_might_match_{i32,i64,float,double}',
}
EST = {'c16_filter_row_groups': 60, 'c16_pw_update_statistics_i32': 30, 'c16_pw_update_statistics_i64': 40,
       'c16_pw_update_statistics_float': 60, 'c16_pw_update_statistics_double': 110, 'c16_builder_add_values_double': 40, 'c16_builder_add_values_int96': 190}
# still open
NOTES = {
    'c16_range_overlaps_int96': ('FINDING: carquet_statistics_range_overlaps sends INT96 (no case in its switch) to compare_byte_array = memcmp over '
                                 'the 12 little-endian bytes, while the builder and carquet_statistics_compare order INT96 with compare_int96 '
                                 '(unsigned words, most significant first): stats [255,255], query [0,256] -> overlaps=false (native: /tmp/stats/int96_demo.c). '
                                 'Fix: add `case CARQUET_PHYSICAL_INT96: cmp = compare_int96(...)` (and BOOLEAN -> compare_boolean) to both switches.'),
    'c16_builder_add_values_flba16': 'UNDECIDED: cbmc timeout at 300 s (16-byte exact memcmp/memcpy in the loop step); not a claim',
}
NEW_WIP = set(NOTES) - {'c16_range_overlaps_int96'}   # repaired upstream by 8c71e4e
for j in JOBS:
    j['wip'] = j['name'] in NEW_WIP
    if j['name'] in EST:
        j['est_s'] = EST[j['name']]
    if j['name'] in NOTES:
        j['note'] = NOTES[j['name']]
    if j['name'] in ('c16_pw_update_statistics_double', 'c16_builder_add_values_int96', 'c16_builder_add_values_flba16'):
        j['tier'] = 'thorough'   # 110-200 s
