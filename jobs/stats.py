# C16 — statistics are true bounds; predicate pushdown has no false negatives
STUBS = ['stubs/stats_stubs.c']
TR = ['stubs/stats_stubs.c: memcpy/memset exact for n <= 16 (else havoc), memcmp = true lexicographic sign for n <= 8 (else arbitrary); ranges must be accessible']
RD = dict(prop='C16', harness='harness/C16/reader_stats.c', overlays=['contracts/stats_reader.ovl'], includes=['.'],
          extra_sources=STUBS, trusted=TR, loop_contracts=False)
RGM_FUNCS = ['carquet_reader_row_group_matches', 'carquet_reader_column_statistics', 'get_compare_fn']
T = dict(i32=0, i64=1, float=2, double=3, bytes=4, flba=5, bool=6)
CMP = dict(i32='compare_int32', i64='compare_int64', float='compare_float', double='compare_double')
RN = dict(i32='i32', i64='i64', float='f32', double='f64')
RGM_VARS = dict((v, v) for v in ['present', 'vbits', 'xbits', 'nminbits', 'nmaxbits', 'dminbits', 'dmaxbits', 'op'])
def rgm_replayer(t):
    return dict(kind='direct', harness='replay/direct/stats_rgm_%s.c' % RN[t], sources=[], vars=RGM_VARS)

JOBS = []
# 1. row_group_matches, numeric types: harness is the contract (loop-free), full domain
for t in ['i32', 'i64', 'float', 'double']:
    JOBS.append(dict(name='c16_rgm_%s' % t, entry='h_rgm_numeric', defines=['CQV_T=%d' % T[t], 'CQV_MEMSET_EXACT=64'],
                     functions=RGM_FUNCS + [CMP[t]], replayer=rgm_replayer(t), wip=True, **RD))
for t in ['float', 'double']:
    JOBS.append(dict(name='c16_rgm_%s_probe_not_nan' % t, entry='h_rgm_numeric',
                     defines=['CQV_T=%d' % T[t], 'CQV_MEMSET_EXACT=64', 'CQV_PROBE_NOT_NAN=1'],
                     functions=RGM_FUNCS + [CMP[t]], replayer=rgm_replayer(t), level='bounded', bound='probe value is not NaN (NaN probe: see c16_rgm_%s)' % t,
                     wip=True, **RD))
# statistics fields of arbitrary length: no read beyond the field
for t in ['i32', 'i64', 'float', 'double', 'bool']:
    JOBS.append(dict(name='c16_rgm_%s_anylen' % t, entry='h_rgm_numeric_anylen', defines=['CQV_T=%d' % T[t], 'CQV_MEMSET_EXACT=64'],
                     functions=RGM_FUNCS, wip=True,
                     replayer=dict(kind='direct', harness='replay/direct/stats_rgm_anylen_%s.c' % RN.get(t, t), sources=[],
                                   vars=dict(present='present', l1='l1', l2='l2', l3='l3', l4='l4')), **RD))
for t in ['bytes', 'flba']:
    JOBS.append(dict(name='c16_rgm_%s' % t, entry='h_rgm_bytes', defines=['CQV_T=%d' % T[t], 'CQV_MEMSET_EXACT=64', 'CQV_MAXLEN=8'],
                     level='bounded', bound='value, min, max and the witness value x at most 8 bytes each',
                     functions=RGM_FUNCS + ['compare_bytes'], wip=True, **RD))
    JOBS.append(dict(name='c16_rgm_%s_safety' % t, entry='h_rgm_bytes_safety', defines=['CQV_T=%d' % T[t], 'CQV_MEMSET_EXACT=64'],
                     functions=RGM_FUNCS + ['compare_bytes'], wip=True, **RD))

# 2. filter_row_groups: enforce contract; row_group_matches replaced by its (outcome-naming) contract
JOBS.append(dict(name='c16_filter_row_groups', entry='h_filter_row_groups', enforce='carquet_reader_filter_row_groups',
                 replace=['carquet_reader_row_group_matches'], min_loop_obligations=1,
                 prop='C16', harness='harness/C16/reader_stats.c', overlays=['contracts/stats_reader.ovl'], includes=['.'],
                 extra_sources=STUBS,
                 trusted=TR + ['carquet_reader_num_row_groups (src/reader/file_reader.c) re-stated in the harness: returns reader->metadata.num_row_groups',
                               'row_group_matches is called once per group; its outcome for the ghost group k is named cqv_incl_k'],
                 wip=True))

# 3. statistics builder (src/metadata/statistics.c)
BT = dict(bool=0, i32=1, i64=2, int96=3, float=4, double=5)
BD = dict(prop='C16', harness='harness/C16/builder_stats.c', overlays=['contracts/stats_builder.ovl'], includes=['.'],
          extra_sources=STUBS, trusted=TR)
AV = dict(unwindset=['compare_int96.0:4', 'memcmp.0:9', 'memcpy.0:9'], timeout=300)
for t in ['bool', 'i32', 'i64', 'float', 'double']:
    JOBS.append(dict(name='c16_builder_add_values_%s' % t, entry='h_add_values', enforce='carquet_statistics_add_values',
                     defines=['CQV_BT=%d' % BT[t], 'CQV_STATS_EXACT=8'], min_loop_obligations=1, wip=True, **AV, **BD))
for t in ['float', 'double']:
    JOBS.append(dict(name='c16_builder_add_values_%s_no_nan' % t, entry='h_add_values', enforce='carquet_statistics_add_values',
                     defines=['CQV_BT=%d' % BT[t], 'CQV_NO_NAN=1', 'CQV_STATS_EXACT=8'], min_loop_obligations=1, level='bounded',
                     bound='no NaN among the values added and in the bounds so far (NaN case: see c16_builder_add_values_%s)' % t,
                     wip=True, **AV, **BD))
JOBS.append(dict(name='c16_builder_add_nulls', entry='h_add_nulls', loop_contracts=False, functions=['carquet_statistics_add_nulls'],
                 defines=['CQV_BT=1'], wip=True, **BD))
