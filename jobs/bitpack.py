# bit packing, varint/zigzag, bit reader/writer  (src/core/bitpack.c, src/core/endian.h)  C08 / C11 / C12
OVL = ['contracts/bitpack.ovl']
SRC = dict(includes=['.'])
QUICK_W = [0, 1, 2, 3, 5, 7, 8, 9, 13, 16, 17, 24, 31, 32]

JOBS = []

# ---- C11: 8-value group inverse, one job per width, loops unwound completely (constant width) ----
for w in range(0, 33):
    JOBS.append(dict(
        name='c11_pack8_roundtrip_w%02d' % w, prop='C11', harness='harness/C11/bitpack.c', entry='h_pack8_roundtrip',
        defines=['CQV_W=%d' % w, 'CQV_MEMSET_EXACT=32'], unwind=34, loop_contracts=False,
        functions=['carquet_bitpack8_32', 'carquet_bitunpack8_32'] +
                  (['carquet_bitunpack8_%dbit' % w, 'carquet_get_bitunpack8_fn'] if 1 <= w <= 8 else ['carquet_get_bitunpack8_fn']),
        tier='quick' if w in QUICK_W else 'thorough', wip=True, est_s=5, **SRC))

# ---- C12: spec layout (LSB first), encoder and decoder direction, one job per width ---------------
for w in range(1, 33):
    JOBS.append(dict(
        name='c12_pack8_layout_w%02d' % w, prop='C12', harness='harness/C12/bitpack.c', entry='h_pack8_layout',
        defines=['CQV_W=%d' % w, 'CQV_MEMSET_EXACT=32'], unwind=34, loop_contracts=False,
        functions=['carquet_bitpack8_32'],
        tier='quick' if w in QUICK_W else 'thorough', wip=True, est_s=5, **SRC))
    JOBS.append(dict(
        name='c12_unpack8_layout_w%02d' % w, prop='C12', harness='harness/C12/bitpack.c', entry='h_unpack8_layout',
        defines=['CQV_W=%d' % w, 'CQV_MEMSET_EXACT=32'], unwind=34, loop_contracts=False,
        functions=['carquet_bitunpack8_32'] + (['carquet_bitunpack8_%dbit' % w] if w <= 8 else []),
        tier='quick' if w in QUICK_W else 'thorough', wip=True, est_s=5, **SRC))

# ---- group loops and 8-group callee contracts (contracts/bitpack.ovl) -------------------------------
G = dict(overlays=OVL, harness='harness/C08/bitpack.c', **SRC)
JOBS += [
    # C08: the 8-group decoder for ANY width byte 0..255 (the width is not validated by its callers);
    # the contract domain 0..255 is split into ranges
] + [
    dict(name='c08_bitunpack8_32_w%d_%d' % (lo, hi), prop='C08', entry='h_bitunpack8_32', enforce='carquet_bitunpack8_32',
         defines=['CQV_U8_LO=%d' % lo, 'CQV_U8_HI=%d' % hi],
         unwindset=['carquet_bitunpack8_32.0:%d' % (hi // 8 + 3), 'carquet_bitunpack8_32.1:9'], loop_contracts=False,
         functions=['carquet_bitunpack8_32'] + ['carquet_bitunpack8_%dbit' % w for w in range(1, 9)],
         wip=True, est_s=60, **G)
    for lo, hi in [(0, 32), (33, 63), (64, 255)]
] + [
    dict(name='c08_unpack8_safe_w0_32', prop='C08', entry='h_unpack8_safe_0_32', unwind=9, loop_contracts=False,
         functions=['carquet_bitunpack8_32'] + ['carquet_bitunpack8_%dbit' % w for w in range(1, 9)],
         wip=True, est_s=30, **G),
] + [
    dict(name='c11_bitpack8_32_contract_w%d_%d' % (lo, hi), props=['C11', 'C08'], entry='h_bitpack8_32', enforce='carquet_bitpack8_32',
         defines=['CQV_P8_LO=%d' % lo, 'CQV_P8_HI=%d' % hi],
         unwindset=['carquet_bitpack8_32.0:9', 'carquet_bitpack8_32.1:5', 'carquet_bitpack8_32.2:9'], loop_contracts=False,
         wip=True, est_s=60, **G)
    for lo, hi in [(0, 8), (9, 16), (17, 24), (25, 32)]
] + [
]


def mulw(w):
    """x * w for the constant w as shifts/adds/subs (non-adjacent form), as a function-like macro body"""
    if w == 0:
        return '((size_t)(x) - (size_t)(x))'
    terms, k, n = [], 0, w
    while n:
        if n & 1:
            d = 2 - (n & 3)          # +1 or -1
            terms.append((d, k))
            n -= d
        n >>= 1
        k += 1
    terms.sort(key=lambda t: -t[1])
    out = ''
    for d, k in terms:
        t = '((size_t)(x) << %d)' % k if k else '(size_t)(x)'
        out += (' + ' if d > 0 else ' - ') + t if out else t
    return '(' + out + ')'


for w in range(0, 33):
    d = ['CQV_BW_LO=%d' % w, 'CQV_BW_HI=%d' % w, 'CQV_MULW(x)=' + mulw(w)]
    JOBS.append(dict(name='c08_bitunpack_32_w%02d' % w, props=['C08', 'C11'], entry='h_bitunpack_32', enforce='carquet_bitunpack_32',
                     replace=['carquet_bitunpack8_32', 'carquet_bitpack8_32'], min_loop_obligations=2, defines=d, timeout=240,
                     tier='quick' if w in (0, 3, 8, 13, 32) else 'thorough', wip=True, est_s=60, **G))
    JOBS.append(dict(name='c11_bitpack_32_w%02d' % w, props=['C11', 'C08'], entry='h_bitpack_32', enforce='carquet_bitpack_32',
                     replace=['carquet_bitunpack8_32', 'carquet_bitpack8_32'], min_loop_obligations=2, defines=d, timeout=240,
                     tier='quick' if w in (0, 3, 8, 13, 32) else 'thorough', wip=True, est_s=60, **G))
