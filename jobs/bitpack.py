# bit packing, varint/zigzag, bit reader/writer  (src/core/bitpack.c, src/core/endian.h)  C08 / C11 / C12
OVL = ['contracts/bitpack.ovl']
SRC = dict(includes=['.'])
QUICK_W = [0, 1, 2, 3, 5, 7, 8, 9, 13, 16, 17, 24, 31, 32]

JOBS = []
RT = dict(kind='direct', harness='replay/direct/bitpack_roundtrip.c', sources=['src/core/bitpack.c'],
          vars=dict([('width', 'width')] + [('in%d' % i, 'in%d' % i) for i in range(8)]))
RP_U = dict(kind='direct', harness='replay/direct/bitpack_unpack32.c', sources=['src/core/bitpack.c'],
            vars={'count': 'count', 'bit_width': 'bit_width'})
RP_P = dict(kind='direct', harness='replay/direct/bitpack_pack32.c', sources=['src/core/bitpack.c'],
            vars={'count': 'count', 'bit_width': 'bit_width'})

# ---- C11: 8-value group inverse, one job per width, loops unwound completely (constant width) ----
for w in range(0, 33):
    JOBS.append(dict(
        name='c11_pack8_roundtrip_w%02d' % w, prop='C11', harness='harness/C11/bitpack.c', entry='h_pack8_roundtrip',
        defines=['CQV_W=%d' % w, 'CQV_MEMSET_EXACT=32'], unwind=34, loop_contracts=False,
        replayer=RT, functions=['carquet_bitpack8_32', 'carquet_bitunpack8_32'] +
                  (['carquet_bitunpack8_%dbit' % w, 'carquet_get_bitunpack8_fn'] if 1 <= w <= 8 else ['carquet_get_bitunpack8_fn']),
        tier='quick' if w in QUICK_W else 'thorough', wip=False, est_s=5, **SRC))

# ---- C12: spec layout (LSB first), encoder and decoder direction, one job per width ---------------
for w in range(1, 33):
    JOBS.append(dict(
        name='c12_pack8_layout_w%02d' % w, prop='C12', harness='harness/C12/bitpack.c', entry='h_pack8_layout',
        defines=['CQV_W=%d' % w, 'CQV_MEMSET_EXACT=32'], unwind=34, loop_contracts=False,
        replayer=RT, functions=['carquet_bitpack8_32'],
        tier='quick' if w in QUICK_W else 'thorough', wip=False, est_s=5, **SRC))
    JOBS.append(dict(
        name='c12_unpack8_layout_w%02d' % w, prop='C12', harness='harness/C12/bitpack.c', entry='h_unpack8_layout',
        defines=['CQV_W=%d' % w, 'CQV_MEMSET_EXACT=32'], unwind=34, loop_contracts=False,
        functions=['carquet_bitunpack8_32'] + (['carquet_bitunpack8_%dbit' % w] if w <= 8 else []),
        tier='quick' if w in QUICK_W else 'thorough', wip=False, est_s=5, **SRC))

# ---- group loops and 8-group callee contracts (contracts/bitpack.ovl) -------------------------------
G = dict(overlays=OVL, harness='harness/C08/bitpack.c', **SRC)
JOBS += [
    # C08: the 8-group decoder on its domain 0..32 (every caller rejects wider widths since 5d4c4fc / cbbbeed);
    # 33..63 is kept as an extra range
] + [
    dict(name='c08_bitunpack8_32_w%d_%d' % (lo, hi), prop='C08', entry='h_bitunpack8_32', enforce='carquet_bitunpack8_32',
         defines=['CQV_U8_LO=%d' % lo, 'CQV_U8_HI=%d' % hi],
         unwindset=['carquet_bitunpack8_32.0:%d' % (hi // 8 + 3), 'carquet_bitunpack8_32.1:9'], loop_contracts=False,
         functions=['carquet_bitunpack8_32'] + ['carquet_bitunpack8_%dbit' % w for w in range(1, 9)],
         wip=False, est_s=40,
         note='' if hi <= 32 else 'extra: outside the contract domain 0..32 (callers reject > 32 since 5d4c4fc/cbbbeed); no UB and reads only bit_width bytes up to width 63; widths >= 64 shift by >= 64 (former finding F1, now excluded by every caller)',
         **G)
    for lo, hi in [(0, 32), (33, 63)]
] + [
    dict(name='c08_unpack8_safe_w0_32', prop='C08', entry='h_unpack8_safe_0_32', unwind=9, loop_contracts=False,
         functions=['carquet_bitunpack8_32'] + ['carquet_bitunpack8_%dbit' % w for w in range(1, 9)],
         wip=False, est_s=30, **G),
] + [
    dict(name='c11_bitpack8_32_contract_w%d_%d' % (lo, hi), props=['C11', 'C08'], entry='h_bitpack8_32', enforce='carquet_bitpack8_32',
         defines=['CQV_P8_LO=%d' % lo, 'CQV_P8_HI=%d' % hi],
         unwindset=['carquet_bitpack8_32.0:9', 'carquet_bitpack8_32.1:5', 'carquet_bitpack8_32.2:9'], loop_contracts=False,
         wip=False, tier='quick' if hi <= 16 else 'thorough', est_s=150, **G)
    for lo, hi in [(0, 8), (9, 16), (17, 24), (25, 32)]
] + [
]


def mulw(w):
    """x * w for the constant w as shifts/adds/subs (non-adjacent form), as a function-like macro body"""
    if w == 0:
        return '((size_t)(x) - (size_t)(x))'
    terms, k, n = [], 0, w
    while n:
        if n & 1:
            d = 2 - (n & 3)          # +1 or -1
            terms.append((d, k))
            n -= d
        n >>= 1
        k += 1
    terms.sort(key=lambda t: -t[1])
    out = ''
    for d, k in terms:
        t = '((size_t)(x) << %d)' % k if k else '(size_t)(x)'
        out += (' + ' if d > 0 else ' - ') + t if out else t
    return '(' + out + ')'


# Group loops, one job per constant width (see contracts/bitpack.ovl for why).  All were violated before
# /repo d3d9d9d (partial final group touched a full group: over-read / over-write); validated on a copy
# with that commit reverted (w03, w08 fail) and on stride / size / width-0 breakages (w00, w01, w03).
# *_OK: widths seen `ok` on the repaired tree; the others stay wip until they have been seen to close.
UNPACK32_OK = set(range(0, 33))                       # every width closed (2.8 .. 190 s under load)
PACK32_OK = set(range(0, 25)) | {28, 32}              # 25,26,27,29,30,31: SAT and cadical time out at 900 s
UNPACK32_QUICK = {0, 1, 2, 3, 4, 8, 16, 32}
PACK32_QUICK = {0, 1, 2, 3, 4, 5, 8, 16}
for w in range(0, 33):
    d = ['CQV_BW_LO=%d' % w, 'CQV_BW_HI=%d' % w, 'CQV_MULW(x)=' + mulw(w)]
    GL = dict(replace=['carquet_bitunpack8_32', 'carquet_bitpack8_32'], min_loop_obligations=2, defines=d,
              backend=['sat', 'cadical'], est_s=90)
    JOBS.append(dict(name='c08_bitunpack_32_w%02d' % w, props=['C08', 'C11'], entry='h_bitunpack_32', enforce='carquet_bitunpack_32',
                     replayer=RP_U, tier='quick' if w in UNPACK32_QUICK else 'thorough', timeout=240 if w in UNPACK32_QUICK else 900,
                     wip=w not in UNPACK32_OK, **GL, **G))
    JOBS.append(dict(name='c11_bitpack_32_w%02d' % w, props=['C11', 'C08'], entry='h_bitpack_32', enforce='carquet_bitpack_32',
                     replayer=RP_P, tier='quick' if w in PACK32_QUICK else 'thorough', timeout=240 if w in PACK32_QUICK else 1800,
                     wip=w not in PACK32_OK,
                     note='' if w in PACK32_OK else 'UNDECIDED: no answer within 900 s from sat or cadical on the repaired tree (no failure either); '
                          'safety and layout of this width are covered by c11_seq_roundtrip_w%02d (count <= 15) and the 8-group jobs' % w,
                     **GL, **G))

# ---- C11/C12 sequence level: real pack_32 -> unpack_32 and the spec encoder/decoder over the whole stream,
# every count 0..15 (no / one whole group + every partial group size), one job per width; bounded in count only
for w in range(0, 33):
    JOBS.append(dict(
        name='c11_seq_roundtrip_w%02d' % w, props=['C11', 'C12'], harness='harness/C11/bitpack.c', entry='h_seq_roundtrip',
        defines=['CQV_W=%d' % w, 'CQV_SEQ_MAX=15', 'CQV_MEMSET_EXACT=64', 'CQV_MEMCPY_EXACT=32'], unwind=66, loop_contracts=False,
        level='bounded', bound='count <= 15 values (all values, every count 0..15 incl. every partial final group size); width == %d' % w,
        functions=['carquet_bitpack_32', 'carquet_bitunpack_32', 'carquet_bitpack8_32', 'carquet_bitunpack8_32'],
        tier='quick' if w in (0, 1, 3, 8, 13, 32) else 'thorough', wip=False, est_s=30, **SRC))

# ---- C11/C12: varint (ULEB128) and zigzag in endian.h; bit writer -> bit reader ---------------------
V = dict(harness='harness/C11/bitpack.c', loop_contracts=False, **SRC)
JOBS += [
    dict(name='c11_varint32', props=['C11', 'C12'], entry='h_varint32', unwind=12,
         functions=['carquet_encode_varint32', 'carquet_decode_varint32'], wip=False, **V),
    dict(name='c11_varint64', props=['C11', 'C12'], entry='h_varint64', unwind=12,
         functions=['carquet_encode_varint64', 'carquet_decode_varint64'], wip=False, **V),
    dict(name='c08_varint_decode_any', props=['C08'], entry='h_varint_decode_any', unwind=12,
         functions=['carquet_decode_varint32', 'carquet_decode_varint64'], wip=False, **V),
    dict(name='c11_zigzag', props=['C11', 'C12'], entry='h_zigzag', backend=['z3', 'sat'],
         functions=['carquet_zigzag_encode32', 'carquet_zigzag_decode32', 'carquet_zigzag_encode64', 'carquet_zigzag_decode64'],
         wip=False, **V),
    dict(name='c11_bitrw32', prop='C11', entry='h_bitrw', unwind=14,
         replayer=dict(kind='direct', harness='replay/direct/bitpack_bitrw.c', sources=['src/core/bitpack.c'],
                       vars=dict((x, x) for x in ['pa', 'pb', 'v', 'na', 'nb', 'k'])),
         functions=['carquet_bit_writer_init', 'carquet_bit_writer_write_bits', 'carquet_bit_writer_flush', 'flush_buffer',
                    'carquet_bit_writer_bytes_written', 'carquet_bit_reader_init', 'carquet_bit_reader_read_bits', 'refill_buffer'],
         wip=False, tier='thorough', est_s=160, **V),
    # same harness with the second prefix write disabled: at most 32 bits buffered before the write under test
    dict(name='c11_bitrw32_le32_buffered', prop='C11', entry='h_bitrw', unwind=14, defines=['CQV_RW_NB_MAX=0'], level='bounded',
         bound='at most 32 bits buffered in the writer before the k-bit write (k <= 32); all values, all alignments 0..32',
         functions=['carquet_bit_writer_write_bits', 'carquet_bit_writer_flush', 'flush_buffer', 'carquet_bit_reader_read_bits', 'refill_buffer'],
         wip=False, est_s=20, **V),
    dict(name='c08_bitreader_any', prop='C08', entry='h_bitreader_any', unwind=10,
         functions=['carquet_bit_reader_init', 'carquet_bit_reader_read_bits', 'carquet_bit_reader_read_bit', 'refill_buffer'],
         wip=False, est_s=30, **V),
    dict(name='c11_bitrw64', prop='C11', entry='h_bitrw64', unwind=14,
         functions=['carquet_bit_writer_write_bits64', 'carquet_bit_reader_read_bits64'],
         wip=False, est_s=15, **V),
]
