# C15 — SIMD kernels equal their scalar definitions at every ISA level; dispatcher
X86 = ['CARQUET_ARCH_X86', 'CARQUET_ENABLE_SSE', 'CARQUET_ENABLE_AVX2', 'CARQUET_ENABLE_AVX512']
CPU_STUB = 'harness/C15/dispatch.c: carquet_get_cpu_info() returns an arbitrary capability struct (assumed contract for CPUID detection)'
D = dict(prop='C15', harness='harness/C15/dispatch.c', defines=X86, loop_contracts=False, trusted=[CPU_STUB])

JOBS = [
    dict(name='c15_dispatch_init', entry='h_dispatch_init', functions=['carquet_simd_dispatch_init'], unwind=200, wip=True, **D),
    dict(name='c15_dispatch_isa_subset', entry='h_dispatch_isa_subset', functions=['carquet_simd_dispatch_init'], unwind=200, wip=True,
         note='FINDING: AVX-512 kernels are built with -mavx512bw -mavx512vl but selected on has_avx512f alone', **D),
    dict(name='c15_dispatch_wrappers', entry='h_dispatch_wrappers', wip=True,
         functions=['carquet_dispatch_prefix_sum_i32', 'carquet_dispatch_prefix_sum_i64', 'carquet_dispatch_gather_i32',
                    'carquet_dispatch_gather_i64', 'carquet_dispatch_gather_float', 'carquet_dispatch_gather_double',
                    'carquet_dispatch_byte_split_encode_float', 'carquet_dispatch_byte_split_decode_float',
                    'carquet_dispatch_byte_split_encode_double', 'carquet_dispatch_byte_split_decode_double',
                    'carquet_dispatch_unpack_bools', 'carquet_dispatch_pack_bools', 'carquet_dispatch_find_run_length_i32',
                    'carquet_dispatch_crc32c', 'carquet_dispatch_match_copy', 'carquet_dispatch_match_length',
                    'carquet_dispatch_count_non_nulls', 'carquet_dispatch_build_null_bitmap', 'carquet_dispatch_fill_def_levels'], **D),
    dict(name='c15_dispatch_wrappers_lazy', entry='h_dispatch_wrappers_lazy', unwind=200, wip=True,
         extra_sources=['stubs/mem_stubs.c', 'stubs/simd_stubs.c'],
         functions=['carquet_simd_dispatch_init'], **D),
]

# ---- scalar kernels (dispatch.c) --------------------------------------------------------------
S = dict(prop='C15', overlays=['contracts/dispatch.ovl'], harness='harness/C15/scalar.c', defines=X86)
NO_OVF = ['--bounds-check', '--pointer-check', '--div-by-zero-check', '--undefined-shift-check', '--no-signed-overflow-check']
# inner fixed-width loops of ALL kernels in the file (the loop-contract pass visits every function of the
# translation unit and refuses an uncontracted loop nested in a contracted one) -> unwound completely
UNW_SCALAR = ['scalar_byte_split_encode_float.0:5', 'scalar_byte_split_decode_float.0:5',
              'scalar_byte_split_encode_double.0:9', 'scalar_byte_split_decode_double.0:9',
              'scalar_pack_bools.0:9', 'spec_crc32c_byte.0:9']
def sj(fn, loops=1, **kw):
    d = dict(name='c15_' + fn, entry='h_' + fn, enforce=fn, min_loop_obligations=loops, wip=True, unwindset=UNW_SCALAR)
    d.update(S); d.update(kw)
    return d
JOBS += [
    sj('scalar_prefix_sum_i32', checks=NO_OVF, note='functional part, two\'s complement; signed overflow of sum is job ..._ub'),
    sj('scalar_prefix_sum_i64', checks=NO_OVF, note='functional part, two\'s complement; signed overflow of sum is job ..._ub'),
    sj('scalar_gather_i32'), sj('scalar_gather_i64'), sj('scalar_gather_float'), sj('scalar_gather_double'),
    sj('scalar_byte_split_encode_float'),
    sj('scalar_byte_split_decode_float'),
    sj('scalar_byte_split_encode_double'),
    sj('scalar_byte_split_decode_double'),
    sj('scalar_unpack_bools', note='FINDING: byte index narrowed to int; count > 2^34 reads input[] at a negative index'),
    sj('scalar_unpack_bools', name='c15_scalar_unpack_bools_lt2e34', defines=X86 + ['CQV_BOOLS_MAX=17179869184LL'],
       level='bounded', bound='count <= 2^34 (byte index fits int)'),
    sj('scalar_pack_bools'),
    sj('scalar_find_run_length_i32'),
    sj('scalar_crc32c'),
    sj('scalar_match_copy', loops=3, defines=X86 + ['CQV_MEMCPY_EXACT=16'], unwindset=UNW_SCALAR + ['memcpy.0:17']),
    sj('scalar_match_length'),
    sj('scalar_count_non_nulls'),
    sj('scalar_build_null_bitmap', loops=2),
    sj('scalar_fill_def_levels'),
    dict(name='c15_scalar_crc32c_check_value', entry='h_scalar_crc32c_check_value', loop_contracts=False, unwind=10,
         functions=['scalar_crc32c'], level='bounded', bound='the 9-byte message "123456789"', wip=True, **S),
]
