# C15 — SIMD kernels equal their scalar definitions at every ISA level; dispatcher
X86 = ['CARQUET_ARCH_X86', 'CARQUET_ENABLE_SSE', 'CARQUET_ENABLE_AVX2', 'CARQUET_ENABLE_AVX512']
CPU_STUB = 'harness/C15/dispatch.c: carquet_get_cpu_info() returns an arbitrary capability struct (assumed contract for CPUID detection)'
D = dict(prop='C15', harness='harness/C15/dispatch.c', defines=X86, loop_contracts=False, trusted=[CPU_STUB])

JOBS = [
    dict(name='c15_dispatch_init', entry='h_dispatch_init', functions=['carquet_simd_dispatch_init'], unwind=200, wip=False, **D),
    dict(name='c15_dispatch_isa_subset', entry='h_dispatch_isa_subset', functions=['carquet_simd_dispatch_init'], unwind=200, wip=True, **D),
    dict(name='c15_dispatch_wrappers', entry='h_dispatch_wrappers', wip=False,
         functions=['carquet_dispatch_prefix_sum_i32', 'carquet_dispatch_prefix_sum_i64', 'carquet_dispatch_gather_i32',
                    'carquet_dispatch_gather_i64', 'carquet_dispatch_gather_float', 'carquet_dispatch_gather_double',
                    'carquet_dispatch_byte_split_encode_float', 'carquet_dispatch_byte_split_decode_float',
                    'carquet_dispatch_byte_split_encode_double', 'carquet_dispatch_byte_split_decode_double',
                    'carquet_dispatch_unpack_bools', 'carquet_dispatch_pack_bools', 'carquet_dispatch_find_run_length_i32',
                    'carquet_dispatch_crc32c', 'carquet_dispatch_match_copy', 'carquet_dispatch_match_length',
                    'carquet_dispatch_count_non_nulls', 'carquet_dispatch_build_null_bitmap', 'carquet_dispatch_fill_def_levels'], **D),
    dict(name='c15_dispatch_wrappers_lazy', entry='h_dispatch_wrappers_lazy', unwind=200, wip=False,
         extra_sources=['stubs/mem_stubs.c', 'stubs/simd_stubs.c'],
         functions=['carquet_simd_dispatch_init'], **D),
]

# ---- scalar kernels (dispatch.c) --------------------------------------------------------------
S = dict(prop='C15', overlays=['contracts/dispatch.ovl'], harness='harness/C15/scalar.c', defines=X86)
NO_OVF = ['--bounds-check', '--pointer-check', '--div-by-zero-check', '--undefined-shift-check', '--no-signed-overflow-check']
# inner fixed-width loops of ALL kernels in the file (the loop-contract pass visits every function of the
# translation unit and refuses an uncontracted loop nested in a contracted one) -> unwound completely
UNW_SCALAR = ['scalar_byte_split_encode_float.0:5', 'scalar_byte_split_decode_float.0:5',
              'scalar_byte_split_encode_double.0:9', 'scalar_byte_split_decode_double.0:9',
              'scalar_pack_bools.0:9', 'spec_crc32c_byte.0:9']
def sj(fn, loops=1, **kw):
    d = dict(name='c15_' + fn, entry='h_' + fn, enforce=fn, min_loop_obligations=loops, wip=True, unwindset=UNW_SCALAR)
    d.update(S); d.update(kw)
    return d
JOBS += [
    sj('scalar_prefix_sum_i32'), sj('scalar_prefix_sum_i64'),   # all default checks incl. signed overflow (fixed by e882fa5)
    sj('scalar_gather_i32'), sj('scalar_gather_i64'), sj('scalar_gather_float'), sj('scalar_gather_double'),
    sj('scalar_byte_split_encode_float'),
    sj('scalar_byte_split_decode_float'),
    sj('scalar_byte_split_encode_double'),
    sj('scalar_byte_split_decode_double'),
    sj('scalar_unpack_bools'),   # full count domain (byte index is size_t since 591c517)
    sj('scalar_pack_bools'),
    sj('scalar_find_run_length_i32'),
    sj('scalar_crc32c'),
    # unbounded contract of scalar_match_copy is in the overlay but does not close (cbmc > 600 s); bounded instead
    dict(name='c15_scalar_match_copy_bounded', entry='h_scalar_match_copy_bounded', prop='C15', harness='harness/C15/scalar.c',
         overlays=[], loop_contracts=False, unwindset=['scalar_match_copy.0:8', 'scalar_match_copy.1:9', 'scalar_match_copy.2:50', 'memcpy.0:17'],
         defines=X86 + ['CQV_MEMCPY_EXACT=16'], functions=['scalar_match_copy'],
         level='bounded', bound='offset 1..32, len 0..48, all buffer contents', wip=True, timeout=600),
    sj('scalar_match_length'),
    sj('scalar_count_non_nulls'),
    sj('scalar_build_null_bitmap', loops=2),
    sj('scalar_fill_def_levels'),
    dict(name='c15_scalar_crc32c_check_value', entry='h_scalar_crc32c_check_value', loop_contracts=False, unwind=10,
         functions=['scalar_crc32c'], level='bounded', bound='the 9-byte message "123456789"', wip=True, **S),
]

# ---- SSE4.2 kernels (sse_ops.c) -----------------------------------------------------------------
IA32 = 'stubs/ia32_model.c: C models (Intel SDM pseudo-code) of pshufb128, punpck{l,h}{bw,wd}128, pmovmskb128, packsswb128, pminub128, pslldqi128, psrlwi128, pslldi128, vec_ext_v4si, crc32{qi,hi,si,di}; __builtin_prefetch = no-op (A6; validated natively against the instructions on 2e6 vectors)'
UNW_IA32 = ['__builtin_ia32_pshufb128.0:17', '__builtin_ia32_punpcklbw128.0:9', '__builtin_ia32_punpckhbw128.0:9',
            '__builtin_ia32_punpcklwd128.0:5', '__builtin_ia32_punpckhwd128.0:5', '__builtin_ia32_pmovmskb128.0:17',
            '__builtin_ia32_packsswb128.0:9', '__builtin_ia32_pminub128.0:17', '__builtin_ia32_pslldqi128.0:17',
            '__builtin_ia32_psrlwi128.0:9', '__builtin_ia32_pslldi128.0:5', 'crc32c_bits.0:9', 'crc32c_bits.1:9', 'spec_crc32c_byte.0:9',
            'memcpy.0:17']
# inner fixed-width loops of sse_ops.c kernels (goto loop numbers)
UNW_SSE = ['carquet_sse_byte_stream_split_encode_float.1:5', 'carquet_sse_byte_stream_split_decode_float.1:5',
           'carquet_sse_byte_stream_split_encode_double.0:9', 'carquet_sse_byte_stream_split_encode_double.2:9',
           'carquet_sse_byte_stream_split_decode_double.0:9', 'carquet_sse_pack_bools.1:9',
           'carquet_sse_build_null_bitmap.1:9']
E = dict(prop='C15', overlays=['contracts/sse_ops.ovl'], harness='harness/C15/sse.c',
         defines=['__SSE4_2__=1', 'CQV_MEMCPY_EXACT=16'], extra_sources=['stubs/mem_stubs.c', 'stubs/ia32_model.c'],
         trusted=[IA32, 'harness/C15/sse.c: _mm_loadl_epi64/_mm_storel_epi64 replaced by MOVQ models (CBMC cannot cast __m64 to long long)'], timeout=300)
def ej(fn, loops=1, **kw):
    d = dict(name='c15_sse_' + fn, entry='h_sse_' + fn, enforce='carquet_sse_' + fn, min_loop_obligations=loops, wip=True,
             unwindset=UNW_IA32 + UNW_SSE)
    d.update(E); d.update(kw)
    return d
JOBS += [
    ej('fill_def_levels', loops=2),
    ej('prefix_sum_i32', loops=2), ej('prefix_sum_i64', loops=2),   # all default checks incl. signed overflow (71bb5be)
    ej('gather_i32', loops=3), ej('gather_i64', loops=2), ej('gather_float', loops=3), ej('gather_double', loops=2),
    # unbounded contracts for BSS float do not close (cbmc > 300 s, also per stream / cadical); bounded jobs below
    ej('byte_stream_split_encode_float', loops=2, note='UNDECIDED unbounded: timeout; see ..._bounded'),
    ej('byte_stream_split_decode_float', loops=2, note='UNDECIDED unbounded: timeout; see ..._bounded'),
    ej('byte_stream_split_encode_double', loops=2, note='UNDECIDED unbounded: cbmc timeout 1500 s; see ..._bounded'), ej('byte_stream_split_decode_double', loops=1),
    ej('unpack_bools', loops=2),   # full count domain (591c517)
    # domain of the SSE kernel is documented as bytes 0/1 ("Input bytes should be 0 or 1"); the claim is made element by
    # element for bytes in {0,1}.  Observation (not a job): for other byte values it packs bit 0, the scalar packs (byte != 0).
    ej('pack_bools', loops=1, name='c15_sse_pack_bools_01', defines=E['defines'] + ['CQV_BOOL01=1'],
       level='bounded', bound='input bytes in {0,1} (documented kernel domain); every count'),
    ej('find_run_length_i32', loops=2), ej('count_non_nulls', loops=2), ej('build_null_bitmap', loops=1),
    ej('crc32c', loops=2, backend='cadical'),   # with ~crc pre/post inversion (ab160bd); minisat needs > 300 s for the xor network
]
JOBS += [
    dict(name='c15_sse_match_copy_bounded', entry='h_sse_match_copy_bounded', prop='C15', harness='harness/C15/sse.c',
         overlays=[], loop_contracts=False, defines=E['defines'], extra_sources=E['extra_sources'], trusted=E['trusted'],
         unwindset=['carquet_sse_match_copy.%d:%d' % lb for lb in enumerate([5, 9, 5, 17, 26, 5, 5, 5, 50])] + ['memcpy.0:17'],
         functions=['carquet_sse_match_copy'], level='bounded', bound='offset 1..32, len 0..48, all buffer contents', wip=True, timeout=600),
]
# unbounded contracts for these three are in the overlay (jobs c15_sse_match_length/memset_small/memcpy_small: cbmc does not
# finish in 300 s / 8 GB); decided bounded instead
JOBS += [ej('match_length', loops=2, note='UNDECIDED unbounded: timeout'), ej('memset_small', loops=3, note='UNDECIDED unbounded: timeout'),
         ej('memcpy_small', loops=3, note='UNDECIDED unbounded: timeout')]
def bj(fn, unw, bound):
    return dict(name='c15_sse_%s_bounded' % fn, entry='h_sse_%s_bounded' % fn, prop='C15', harness='harness/C15/sse.c', overlays=[],
                loop_contracts=False, defines=E['defines'], extra_sources=E['extra_sources'], trusted=E['trusted'],
                unwindset=['carquet_sse_%s.%d:%d' % (fn, i, b) for i, b in enumerate(unw)] + ['__builtin_ia32_pmovmskb128.0:17'],
                functions=['carquet_sse_' + fn], level='bounded', bound=bound, wip=True, timeout=600)
JOBS += [bj('memset_small', [4, 5, 17], 'n 0..130, any alignment offset fixed at 16, all values'),
         bj('memcpy_small', [4, 5, 17], 'n 0..130, all contents'),
         bj('match_length', [5, 17], 'limit - p in 0..48 (p at any offset of a 64-byte buffer ending at limit), match before p in the same buffer (LZ), all contents')]
JOBS[-1]['backend'] = ['cadical', 'sat']
for dirn in ('encode', 'decode'):
    JOBS.append(dict(name='c15_sse_byte_stream_split_%s_float_bounded' % dirn, entry='h_sse_bss_%s_float_bounded' % dirn, prop='C15',
                     harness='harness/C15/sse.c', overlays=[], loop_contracts=False, defines=['__SSE4_2__=1', 'CQV_MEMCPY_EXACT=4'],
                     extra_sources=E['extra_sources'], trusted=E['trusted'],
                     unwindset=['carquet_sse_byte_stream_split_%s_float.0:13' % dirn, 'carquet_sse_byte_stream_split_%s_float.1:5' % dirn,
                                'carquet_sse_byte_stream_split_%s_float.2:5' % dirn, 'memcpy.0:5', '__builtin_ia32_pshufb128.0:17',
                                '__builtin_ia32_punpcklbw128.0:9', '__builtin_ia32_punpcklwd128.0:5'],
                     functions=['carquet_sse_byte_stream_split_%s_float' % dirn], level='bounded',
                     bound='count 0..47, all data, every stream and position', wip=True, timeout=600))
JOBS.append(dict(name='c15_sse_byte_stream_split_encode_double_bounded', entry='h_sse_bss_encode_double_bounded', prop='C15',
                 harness='harness/C15/sse.c', overlays=[], loop_contracts=False, defines=E['defines'], extra_sources=E['extra_sources'],
                 trusted=E['trusted'], unwindset=['carquet_sse_byte_stream_split_encode_double.0:9', 'carquet_sse_byte_stream_split_encode_double.1:25',
                                                  'carquet_sse_byte_stream_split_encode_double.2:9', 'carquet_sse_byte_stream_split_encode_double.3:3'],
                 functions=['carquet_sse_byte_stream_split_encode_double'], level='bounded',
                 bound='count 0..47, all data, every stream and position', wip=True, timeout=600))
# quick-tier variant of the SSE match_copy job: smaller bound (covers every branch: offsets 1, 2, 4, general < 16, >= 16)
JOBS.append(dict(name='c15_sse_match_copy_bounded_q', entry='h_sse_match_copy_bounded', prop='C15', harness='harness/C15/sse.c',
                 overlays=[], loop_contracts=False, defines=E['defines'] + ['CQV_MC_OFF=20', 'CQV_MC_LEN=32'],
                 extra_sources=E['extra_sources'], trusted=E['trusted'],
                 unwindset=['carquet_sse_match_copy.%d:%d' % lb for lb in enumerate([4, 9, 4, 17, 18, 4, 5, 5, 34])] + ['memcpy.0:17'],
                 functions=['carquet_sse_match_copy'], level='bounded', bound='offset 1..20, len 0..32, all buffer contents',
                 wip=True, timeout=300))
# quick-tier variant of the SSE match_length job: limit - p in 0..24 (every remainder class: 0..15 bytes after zero or one
# 16-byte step), p and match in one 40-byte buffer
JOBS.append(dict(bj('match_length', [3, 17], 'limit - p in 0..24 (p at any offset >= 16 of a 40-byte buffer ending at limit), match before p in the same buffer, all contents'),
                 name='c15_sse_match_length_bounded_q', defines=E['defines'] + ['CQV_ML_BUF=40', 'CQV_ML_MAX=24'], unwind=20, timeout=300, backend='cadical'))
def lemma(fn, **kw):
    d = dict(name='c15_sse_' + fn, entry='h_sse_' + fn, loop_contracts=False, unwind=66, functions=['carquet_sse_' + fn], wip=True)
    d.update(E); d['overlays'] = []; d.update(kw)
    return d
JOBS += [
    lemma('crc32c_check_value', level='bounded', bound='the 9-byte message "123456789"'),
    lemma('bitunpack32_1bit'), lemma('bitunpack8_4bit'), lemma('bitunpack8_8bit'),
]

# ---- AVX2 / AVX-512 bool kernels, bounded in count ---------------------------------------------------
IA32X = 'stubs/ia32_model.c: C models of psrldqi128, vec_ext_v8hi, pbroadcastb512_gpr_mask, ptestmb512, loaddquqi512_mask (masked-off bytes not accessed) (A6; validated natively against the instructions)'
AVX = dict(prop='C15', overlays=[], loop_contracts=False, extra_sources=['stubs/mem_stubs.c', 'stubs/ia32_model.c'],
           trusted=[IA32, IA32X], level='bounded', bound='count 0..130, all data', wip=True, timeout=600)
JOBS += [
    dict(name='c15_avx512_pack_bools_bounded', entry='h_avx512_pack_bools_bounded', harness='harness/C15/avx512.c',
         defines=['__AVX512F__=1', 'CQV_MEMCPY_EXACT=16'], functions=['carquet_avx512_pack_bools'],
         unwindset=['carquet_avx512_pack_bools.0:4', 'memcpy.0:17', '__builtin_ia32_ptestmb512.0:65', '__builtin_ia32_loaddquqi512_mask.0:65'], **AVX),
    dict(name='c15_avx512_unpack_bools_bounded', entry='h_avx512_unpack_bools_bounded', harness='harness/C15/avx512.c',
         defines=['__AVX512F__=1', 'CQV_MEMCPY_EXACT=16'], functions=['carquet_avx512_unpack_bools'],
         unwindset=['carquet_avx512_unpack_bools.0:4', 'carquet_avx512_unpack_bools.1:65', 'memcpy.0:17',
                    '__builtin_ia32_pbroadcastb512_gpr_mask.0:65'], **AVX),
    dict(name='c15_avx2_pack_bools_bounded', entry='h_avx2_pack_bools_bounded', harness='harness/C15/avx2.c',
         defines=['__AVX2__=1'], functions=['carquet_avx2_pack_bools'],
         unwindset=['carquet_avx2_pack_bools.0:18', 'carquet_avx2_pack_bools.1:9', 'h_avx2_pack_bools_bounded.0:132',
                    '__builtin_ia32_punpcklbw128.0:9', '__builtin_ia32_psrldqi128.0:17'], **AVX),
]
JOBS[-1]['bound'] = 'count 0..130, all input bytes in {0,1} (documented kernel domain)'
# dictionary gathers: every load of indices in [0,count), every store in output[0,count), value == dict[indices[k]]
IA32G = 'stubs/ia32_model.c: C models of gathersiv8si/4di (AVX2), gathersiv16si/8di, loaddqu{si,di}512_mask, storedqu{si,di}512_mask (masked-off elements not accessed; signed 32-bit index) (A6; validated natively)'
GUNW = ['__builtin_ia32_gathersiv16si.0:17', '__builtin_ia32_gathersiv8di.0:9', '__builtin_ia32_gathersiv8si.0:9', '__builtin_ia32_gathersiv4di.0:5',
        '__builtin_ia32_loaddqusi512_mask.0:17', '__builtin_ia32_storedqusi512_mask.0:17', '__builtin_ia32_loaddqudi512_mask.0:9',
        '__builtin_ia32_storedqudi512_mask.0:9']
KUNW = {'avx512': {'i32': [4, 3, 9], 'i64': [7, 9]}, 'avx2': {'i32': [7, 9], 'i64': [12, 5]}}
for isa, define in (('avx512', '__AVX512F__=1'), ('avx2', '__AVX2__=1')):
    for t in ('i32', 'i64', 'float', 'double'):
        base = {'float': 'i32', 'double': 'i64'}.get(t, t)
        fns = ['carquet_%s_gather_%s' % (isa, t)] + (['carquet_%s_gather_%s' % (isa, base)] if base != t else [])
        d = dict(AVX)
        d.update(name='c15_%s_gather_%s_bounded' % (isa, t), entry='h_%s_gather_%s_bounded' % (isa, t), harness='harness/C15/%s.c' % isa,
                 defines=[define], functions=fns, trusted=[IA32, IA32X, IA32G],
                 unwindset=['carquet_%s_gather_%s.%d:%d' % (isa, base, i, b) for i, b in enumerate(KUNW[isa][base])] +
                           ['h_%s_gather_%s_bounded.0:42' % (isa, t)] + GUNW,
                 unwind=45,   # net for loops a changed kernel may have beyond the listed ones
                 bound='count 0..40, dictionary of 64 entries, all indices < 64, all data')
        JOBS.append(d)

# ---- status after validation (ok on /repo AND a deliberate breakage of the function detected) -----
VALIDATED = set("""
c15_dispatch_isa_subset c15_scalar_prefix_sum_i32 c15_scalar_prefix_sum_i64 c15_scalar_unpack_bools c15_scalar_build_null_bitmap
c15_sse_gather_i64 c15_sse_gather_float c15_sse_gather_double c15_sse_memset_small_bounded c15_sse_memcpy_small_bounded
c15_avx512_pack_bools_bounded c15_avx512_unpack_bools_bounded c15_avx2_pack_bools_bounded c15_sse_byte_stream_split_decode_double
c15_avx512_gather_i32_bounded c15_avx512_gather_i64_bounded c15_avx512_gather_float_bounded c15_avx512_gather_double_bounded
c15_avx2_gather_i32_bounded c15_avx2_gather_i64_bounded c15_avx2_gather_float_bounded c15_avx2_gather_double_bounded c15_sse_match_length_bounded_q
c15_sse_match_copy_bounded_q c15_sse_byte_stream_split_encode_double_bounded c15_sse_match_length_bounded c15_sse_byte_stream_split_encode_float_bounded c15_sse_byte_stream_split_decode_float_bounded
c15_sse_crc32c_check_value c15_sse_unpack_bools c15_sse_crc32c c15_scalar_match_copy_bounded c15_sse_match_copy_bounded
c15_scalar_gather_i32 c15_scalar_gather_i64 c15_scalar_gather_float
c15_scalar_gather_double c15_scalar_byte_split_encode_float c15_scalar_byte_split_decode_float
c15_scalar_byte_split_encode_double c15_scalar_byte_split_decode_double
c15_scalar_pack_bools c15_scalar_find_run_length_i32 c15_scalar_crc32c c15_scalar_match_length
c15_scalar_count_non_nulls c15_scalar_fill_def_levels
c15_sse_fill_def_levels c15_sse_prefix_sum_i32 c15_sse_prefix_sum_i64 c15_sse_gather_i32 c15_sse_bitunpack32_1bit
c15_sse_bitunpack8_4bit c15_sse_bitunpack8_8bit c15_sse_pack_bools_01
c15_sse_find_run_length_i32 c15_sse_count_non_nulls c15_sse_build_null_bitmap
""".split())
THOROUGH = {'c15_avx512_gather_i64_bounded': 120, 'c15_avx512_gather_double_bounded': 140, 'c15_avx2_gather_i64_bounded': 135, 'c15_avx2_gather_double_bounded': 135, 'c15_sse_byte_stream_split_encode_double_bounded': 510, 'c15_sse_byte_stream_split_decode_double': 85, 'c15_sse_match_length_bounded': 270, 'c15_sse_byte_stream_split_decode_float_bounded': 350, 'c15_sse_gather_i64': 100, 'c15_sse_gather_float': 510, 'c15_sse_gather_double': 95, 'c15_sse_crc32c': 100, 'c15_scalar_match_copy_bounded': 105, 'c15_sse_match_copy_bounded': 115, 'c15_scalar_byte_split_encode_double': 220, 'c15_scalar_byte_split_decode_double': 60,
            'c15_sse_gather_i32': 300, 'c15_sse_prefix_sum_i32': 140, 'c15_sse_prefix_sum_i64': 130}
EST = {'c15_avx512_gather_i32_bounded': 75, 'c15_avx512_gather_float_bounded': 90, 'c15_avx2_gather_i32_bounded': 50, 'c15_avx2_gather_float_bounded': 70,
       'c15_sse_match_length_bounded_q': 60, 'c15_sse_byte_stream_split_encode_float_bounded': 70}
NOTES = {
    'c15_scalar_crc32c_check_value': 'spec sanity check only (9 table entries exercised); not validated by a breakage',
}
for j in JOBS:
    if j['name'] in VALIDATED:
        j['wip'] = False
    if j['name'] in THOROUGH:
        j['tier'] = 'thorough'; j['est_s'] = THOROUGH[j['name']]; j['timeout'] = 1500
    if j['name'] in EST:
        j['est_s'] = EST[j['name']]
    if j['name'] in NOTES:
        j['note'] = NOTES[j['name']]

# ---- alignment quantifier, bounded in count, overlay-free (cannot drift) -------------------------------------
def mj(fn, quick, est, **kw):
    d = dict(name='c15_sse_mis_' + fn, entry='h_sse_mis_' + fn, prop='C15', harness='harness/C15/sse_misaligned.c', overlays=[],
             loop_contracts=False, defines=E['defines'] + ['CQV_MIS_MAX=12'], extra_sources=E['extra_sources'], trusted=E['trusted'],
             unwindset=UNW_IA32, unwind=14, functions=['carquet_sse_' + fn], level='bounded',
             bound='count 0..12, buffer starting 0..7 elements into an exactly sized block, all data',
             tier='quick' if quick else 'thorough', est_s=est, wip=False, timeout=900, backend=['cadical', 'sat'])
    d.update(kw)
    return d
_OOM = 'UNDECIDED: cbmc runs out of memory (8 GB) / time (900 s) on the symbolic block sizes; not live'
MIS_JOBS = [mj('crc32c', True, 150), mj('count_non_nulls', True, 150), mj('build_null_bitmap', False, 150), mj('find_run_length_i32', False, 150),
            mj('unpack_bools', False, 60, wip=True, note=_OOM), mj('prefix_sum_i32', False, 60, wip=True, note=_OOM),
            mj('fill_def_levels', False, 30, wip=True, note=_OOM)]
JOBS += MIS_JOBS
