# C20 — Bloom filters: no false negatives, Parquet SBBF algorithm, XXH64
XX = dict(harness='harness/C20/xxh64.c', entry='h_xxh64', backend=['z3', 'sat'], level='bounded',
          includes=['.'], extra_sources=[], functions=['carquet_xxhash64'], timeout=300,
          checks=['--bounds-check', '--pointer-check'])
QUICK_LENS = [0, 1, 3, 4, 7, 8, 12, 15, 31, 32, 33, 39, 63, 64, 65, 96, 100]
JOBS = []
for n in range(0, 130):
    JOBS.append(dict(name='c20_xxh64_len%03d' % n, prop='C20', defines=['CQV_LEN=%d' % n],
                     unwind=max(10, n // 8 + 3), tier='quick' if n in QUICK_LENS else 'thorough',
                     bound='input length == %d bytes (all data, all seeds)' % n, **XX))

B = dict(overlays=['contracts/bloom.ovl'], harness='harness/C20/bloom.c', prop='C20', includes=['.'])
JOBS += [
    # loop-free lemmas over the real static functions (8-iteration loops unwound completely)
    dict(name='c20_block_insert_spec', entry='h_block_insert_spec', backend='z3', unwind=9, loop_contracts=False,
         functions=['bloom_filter_block_insert', 'bloom_filter_block_check'], **B),
    dict(name='c20_block_check_spec', entry='h_block_check_spec', backend='z3', unwind=9, loop_contracts=False,
         functions=['bloom_filter_block_check'], **B),
    dict(name='c20_block_index', entry='h_block_index', enforce='bloom_filter_block_index', backend=['cvc5', 'sat'], replayer='bloom_block_index',
         loop_contracts=False, timeout=600, est_s=80, **B),
    dict(name='c20_insert_hash', entry='h_insert_hash', loop_contracts=False,
         replace=['bloom_filter_block_index', 'bloom_filter_block_insert'],
         functions=['carquet_bloom_filter_insert_hash'], **B),
    dict(name='c20_check_hash', entry='h_check_hash', loop_contracts=False,
         replace=['bloom_filter_block_index', 'bloom_filter_block_check'],
         functions=['carquet_bloom_filter_check_hash'], **B),
    dict(name='c20_merge', entry='h_merge', enforce='carquet_bloom_filter_merge', min_loop_obligations=1, **B),
    dict(name='c20_create', c19=True, entry='h_create', loop_contracts=False, functions=['carquet_bloom_filter_create', 'carquet_bloom_filter_destroy'], **B),
    dict(name='c20_from_data_write', c19=True, entry='h_from_data', loop_contracts=False,
         functions=['carquet_bloom_filter_from_data', 'carquet_bloom_filter_write'], **B),
] + [
    dict(name='c20_typed_hash_%s' % t, entry='h_typed_hash', loop_contracts=False, defines=['CQV_WHICH=%d' % w],
         replace=['bloom_filter_block_index', 'bloom_filter_block_insert', 'bloom_filter_block_check'],
         functions=['carquet_bloom_filter_insert_%s' % t, 'carquet_bloom_filter_check_%s' % t], **B)
    for w, t in enumerate(['i32', 'i64', 'float', 'double', 'bytes'])
]
